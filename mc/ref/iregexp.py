"""R5 — I-Regexp (RFC 9485): recogniser, AST and a set-of-positions matcher.

Independent of the `regex` library and of `iregexp_check`.
compile_(pattern) -> Regex | None (None = not a valid I-Regexp)
Regex.fullmatch(s) / Regex.search(s) -> bool
"""

from __future__ import annotations

import functools
import unicodedata


class Bad(Exception):
    pass


CATS = {
    "L": "lmotu",
    "M": "cen",
    "N": "dlo",
    "P": "cdefios",
    "Z": "lps",
    "S": "ckmo",
    "C": "cfno",
}

SINGLE_ESC = set("()*+-.?[\\]^nrt{|}")  # %x28-2B "-" "." "?" %x5B-5E n r t %x7B-7D
ESC_MAP = {"n": "\n", "r": "\r", "t": "\t"}


def _normal_char(c):
    o = ord(c)
    return (
        o <= 0x27
        or c in ",-"
        or 0x2F <= o <= 0x3E
        or 0x40 <= o <= 0x5A
        or 0x5E <= o <= 0x7A
        or 0x7E <= o <= 0xD7FF
        or 0xE000 <= o <= 0x10FFFF
    )


def _ccchar(c):
    o = ord(c)
    return o <= 0x2C or 0x2E <= o <= 0x5A or 0x5E <= o <= 0xD7FF or 0xE000 <= o <= 0x10FFFF


class _Parser:
    def __init__(self, s):
        self.s = s
        self.n = len(s)
        self.p = 0

    def peek(self):
        return self.s[self.p] if self.p < self.n else ""

    def parse(self):
        r = self.regexp()
        if self.p != self.n:
            raise Bad("trailing")
        return r

    def regexp(self):
        branches = [self.branch()]
        while self.peek() == "|":
            self.p += 1
            branches.append(self.branch())
        return ("alt", tuple(branches)) if len(branches) > 1 else branches[0]

    def branch(self):
        pieces = []
        while True:
            c = self.peek()
            if c == "" or c == "|" or c == ")":
                break
            pieces.append(self.piece())
        return ("cat", tuple(pieces))

    def piece(self):
        a = self.atom()
        c = self.peek()
        if c == "*":
            self.p += 1
            return ("rep", a, 0, None)
        if c == "+":
            self.p += 1
            return ("rep", a, 1, None)
        if c == "?":
            self.p += 1
            return ("rep", a, 0, 1)
        if c == "{":
            save = self.p
            self.p += 1
            lo = self.digits()
            hi = lo
            if self.peek() == ",":
                self.p += 1
                if self.peek() == "}":
                    hi = None
                else:
                    hi = self.digits()
            if self.peek() != "}":
                raise Bad("quantifier")
            self.p += 1
            if hi is not None and hi < lo:
                raise Bad("quantifier range")
            del save
            return ("rep", a, lo, hi)
        return a

    def digits(self):
        q = self.p
        while self.p < self.n and "0" <= self.s[self.p] <= "9":
            self.p += 1
        if q == self.p:
            raise Bad("digits")
        return int(self.s[q : self.p])

    def atom(self):
        c = self.peek()
        if c == "(":
            self.p += 1
            r = self.regexp()
            if self.peek() != ")":
                raise Bad("unbalanced")
            self.p += 1
            return r
        if c == ".":
            self.p += 1
            return ("dot",)
        if c == "[":
            return self.char_class_expr()
        if c == "\\":
            return self.escape(in_class=False)
        if c and _normal_char(c):
            self.p += 1
            return ("chr", c)
        raise Bad(f"unexpected {c!r}")

    def escape(self, in_class):
        # at backslash
        e = self.s[self.p + 1] if self.p + 1 < self.n else ""
        if e in SINGLE_ESC and e:
            self.p += 2
            return ("chr", ESC_MAP.get(e, e))
        if e in ("p", "P"):
            if self.s[self.p + 2 : self.p + 3] != "{":
                raise Bad("category")
            end = self.s.find("}", self.p + 3)
            if end < 0:
                raise Bad("category")
            prop = self.s[self.p + 3 : end]
            if not prop or prop[0] not in CATS or len(prop) > 2:
                raise Bad("category")
            if len(prop) == 2 and prop[1] not in CATS[prop[0]]:
                raise Bad("category")
            self.p = end + 1
            return ("cat_esc", prop, e == "P")
        raise Bad("escape")

    def char_class_expr(self):
        # "[" ["^"] ("-" / CCE1) *CCE1 ["-"] "]"
        assert self.peek() == "["
        self.p += 1
        neg = False
        if self.peek() == "^":
            neg = True
            self.p += 1
        items = []
        first = True
        while True:
            c = self.peek()
            if c == "":
                raise Bad("unterminated class")
            if c == "]":
                if first:
                    raise Bad("empty class")
                self.p += 1
                break
            if c == "-":
                # allowed as first item, or as the last item before "]"
                nxt = self.s[self.p + 1] if self.p + 1 < self.n else ""
                if first or nxt == "]":
                    items.append(("chr", "-"))
                    self.p += 1
                    first = False
                    continue
                raise Bad("misplaced -")
            first = False
            if c == "\\" and (self.s[self.p + 1 : self.p + 2] in ("p", "P")):
                items.append(self.escape(in_class=True))
                continue
            lo = self.cc_char()
            # range?
            if self.peek() == "-" and self.s[self.p + 1 : self.p + 2] not in ("]", ""):
                self.p += 1
                hi = self.cc_char()
                if ord(hi) < ord(lo):
                    raise Bad("reversed range")
                items.append(("range", lo, hi))
            else:
                items.append(("chr", lo))
        return ("class", neg, tuple(items))

    def cc_char(self):
        c = self.peek()
        if c == "\\":
            e = self.s[self.p + 1] if self.p + 1 < self.n else ""
            if e in SINGLE_ESC and e:
                self.p += 2
                return ESC_MAP.get(e, e)
            raise Bad("class escape")
        if c and _ccchar(c):
            self.p += 1
            return c
        raise Bad(f"class char {c!r}")


def _cat_match(prop, negated, ch):
    cat = unicodedata.category(ch)
    if len(prop) == 1:
        r = cat[0] == prop
    else:
        r = cat.lower() == prop.lower() and cat[0] == prop[0]
    return r != negated


def _atom_match(node, ch):
    k = node[0]
    if k == "chr":
        return ch == node[1]
    if k == "dot":
        return ch not in "\n\r"
    if k == "cat_esc":
        return _cat_match(node[1], node[2], ch)
    if k == "class":
        hit = False
        for it in node[2]:
            if it[0] == "chr":
                hit = ch == it[1]
            elif it[0] == "range":
                hit = it[1] <= ch <= it[2]
            else:
                hit = _cat_match(it[1], it[2], ch)
            if hit:
                break
        return hit != node[1]
    raise AssertionError(node)


class Regex:
    def __init__(self, ast):
        self.ast = ast

    def ends(self, node, s, starts):
        """set of end positions of matches of node starting at any of `starts`."""
        k = node[0]
        if k in ("chr", "dot", "cat_esc", "class"):
            return {i + 1 for i in starts if i < len(s) and _atom_match(node, s[i])}
        if k == "cat":
            cur = set(starts)
            for piece in node[1]:
                cur = self.ends(piece, s, cur)
                if not cur:
                    break
            return cur
        if k == "alt":
            out = set()
            for b in node[1]:
                out |= self.ends(b, s, starts)
            return out
        if k == "rep":
            _, a, lo, hi = node
            cur = set(starts)
            for _ in range(lo):
                nxt = self.ends(a, s, cur)
                if nxt == cur:
                    break  # fixpoint (only reachable when `a` matches the empty string)
                cur = nxt
                if not cur:
                    return set()
            cap = len(s) + 2
            out = set(cur)
            count = lo
            while hi is None or count < hi:
                cur = self.ends(a, s, cur) - out
                if not cur:
                    break
                out |= cur
                count += 1
                if count > lo + cap:
                    break
            return out
        raise AssertionError(node)

    def fullmatch(self, s):
        return len(s) in self.ends(self.ast, s, {0})

    def search(self, s):
        return bool(self.ends(self.ast, s, set(range(len(s) + 1))))


@functools.lru_cache(maxsize=100000)
def compile_(pattern):
    if any(0xD800 <= ord(c) <= 0xDFFF for c in pattern):
        return None
    try:
        return Regex(_Parser(pattern).parse())
    except Bad:
        return None
    except RecursionError:
        return None
