"""R4 — normalized paths (RFC 9535 2.7): unique rendering of a location."""
ESC = {0x08: "\\b", 0x09: "\\t", 0x0A: "\\n", 0x0C: "\\f", 0x0D: "\\r", 0x27: "\\'", 0x5C: "\\\\"}


def render_name(name):
    out = ["'"]
    for ch in name:
        o = ord(ch)
        if o in ESC:
            out.append(ESC[o])
        elif o < 0x20:
            out.append("\\u%04x" % o)
        else:
            out.append(ch)
    out.append("'")
    return "".join(out)


def render(location):
    parts = ["$"]
    for k in location:
        if isinstance(k, str):
            parts.append("[" + render_name(k) + "]")
        else:
            parts.append("[%d]" % k)
    return "".join(parts)
