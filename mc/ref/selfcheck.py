"""Self-test of the reference model against the RFC example tables (fixtures/)."""
import json
import os

from . import eval as ev
from . import iregexp, typing
from .typing import L, N, V

FIX = os.path.join(os.path.dirname(os.path.dirname(os.path.dirname(os.path.abspath(__file__)))), "fixtures")


def load(name):
    return json.load(open(os.path.join(FIX, name), encoding="utf8"))


WT_REG = dict(typing.BUILTINS)
WT_REG.update({"foo": ((N,), N), "bar": ((V,), L), "bn": ((N,), L), "bl": ((L,), L)})


def run(verbose=False):
    bad = 0

    def fail(msg):
        nonlocal bad
        bad += 1
        print("SELFTEST-FAIL:", msg)

    n = 0
    for c in load("examples.json"):
        v = typing.classify(c["query"])
        if v.cls != "valid":
            fail(f"example query not valid for R2: {c['query']!r} {v}")
            continue
        got = [val for _, val in ev.evaluate(v.ast, c["data"])]
        if got != c["want"]:
            fail(f"example {c['query']!r}: R3 gives {got!r}, table wants {c['want']!r}")
        n += 1
    for c in load("welltyped.json"):
        v = typing.classify(c["query"], registry=WT_REG)
        if (v.cls == "valid") != c["valid"]:
            fail(f"well-typedness {c['query']!r}: R2 says {v}, table says valid={c['valid']}")
        n += 1
    for c in load("nondeterminism.json"):
        v = typing.classify(c["query"])
        perm = ev.Permitted().find_set(v.ast, c["data"])
        got = {json.dumps([val for _, val in res]) for res in perm}
        want = {json.dumps(w) for w in c["want"]}
        if not want <= got:
            fail(f"nondeterminism {c['query']!r}: table results not permitted by R3: {sorted(want - got)[:2]}")
        n += 1
    for c in load("iregexp.json"):
        ok = iregexp.compile_(c["pattern"]) is not None
        if ok != c["valid"]:
            fail(f"I-Regexp validity {c['pattern']!r}: R5 says {ok}, table says {c['valid']}")
        n += 1
    for c in load("parse.json"):
        v = typing.classify(c["query"])
        if v.cls not in ("valid", "grey"):
            fail(f"parser corpus query not valid for R2: {c['query']!r} {v}")
        v2 = typing.classify(c["want"])
        if v2.cls not in ("valid", "grey"):
            fail(f"parser corpus canonical form not valid for R2: {c['want']!r} {v2}")
        n += 1
    for q in load("invalid.json"):
        v = typing.classify(q)
        if v.cls in ("valid", "grey"):
            fail(f"invalid corpus query accepted by R2: {q!r}")
        n += 1
    # comparison table spot rows (RFC 2.3.5.3 examples)
    obj, arr = {"x": "y"}, [2, 3]
    rows = [
        (ev.NOTHING, "==", ev.NOTHING, True), (ev.NOTHING, "<=", ev.NOTHING, True),
        (ev.NOTHING, "==", "g", False), (ev.NOTHING, "!=", ev.NOTHING, False),
        (ev.NOTHING, "!=", "g", True), (1, "<=", 2, True), (1, ">", 2, False),
        (13, "==", "13", False), ("a", "<=", "b", True), ("a", ">", "b", False),
        (obj, "==", arr, False), (obj, "!=", arr, True), (obj, "==", obj, True),
        (obj, "!=", obj, False), (arr, "==", arr, True), (arr, "!=", arr, False),
        (obj, "<=", arr, False), (obj, "<", arr, False), (obj, "<=", obj, True),
        (arr, "<=", arr, True), (1, "<=", arr, False), (1, ">=", arr, False),
        (1, ">", arr, False), (1, "<", arr, False), (True, "<=", True, True),
        (True, ">", True, False), (True, "==", 1, False), (1.0, "==", 1, True),
        ([1], "==", [True], False), (None, "==", None, True), (None, "<", None, False),
        (False, "<", True, False),
    ]
    for a, op, b, want in rows:
        if ev.compare(op, a, b) != want:
            fail(f"comparison row {a!r} {op} {b!r} != {want}")
        n += 1
    if verbose:
        print(f"reference model self-test: {n} table rows checked, {bad} failures")
    return bad
