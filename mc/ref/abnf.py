"""R1 — generic ABNF (RFC 5234 + RFC 7405 %s) reader and recogniser.

The grammar text is data (ref/*.abnf, transcribed from the RFCs); this engine knows
nothing about JSONPath.  Matching computes, for a grammar node and a start position,
the *set* of end positions (memoised per (rule, position)), so alternation order and
ambiguity cannot influence the verdict.  Quoted strings are case-insensitive as RFC
5234 prescribes, %s"..." and %x terminals are exact.
"""

from __future__ import annotations

import os
import re

HERE = os.path.dirname(os.path.abspath(__file__))

TOKEN = re.compile(
    r"""\s+
      | (?P<name>[A-Za-z][A-Za-z0-9-]*)
      | %s"(?P<cs>[^"]*)"
      | "(?P<ci>[^"]*)"
      | %x(?P<hex>[0-9A-Fa-f]+(?:-[0-9A-Fa-f]+|(?:\.[0-9A-Fa-f]+)+)?)
      | (?P<rep>[0-9]*\*[0-9]*|[0-9]+)
      | (?P<punct>[/()\[\]=])
    """,
    re.X,
)


def _tokens(text):
    pos = 0
    out = []
    while pos < len(text):
        m = TOKEN.match(text, pos)
        if not m:
            raise SyntaxError(f"ABNF: cannot tokenise at {text[pos:pos+30]!r}")
        pos = m.end()
        if m.lastgroup is None:
            continue
        out.append((m.lastgroup, m.group(m.lastgroup)))
    return out


class Grammar:
    def __init__(self, *texts):
        self.rules = {}
        for text in texts:
            self._load(text)

    # ---- reading
    def _load(self, text):
        # join continuation lines (lines starting with blank space continue a rule)
        logical = []
        for line in text.splitlines():
            line = line.split(";", 1)[0].rstrip() if '"' not in line else line.rstrip()
            if not line.strip():
                continue
            if line[0] in " \t" and logical:
                logical[-1] += " " + line.strip()
            else:
                logical.append(line)
        for rule in logical:
            toks = _tokens(rule)
            assert toks[0][0] == "name" and toks[1] == ("punct", "="), rule
            name = toks[0][1].lower()
            node, rest = self._alternation(toks, 2)
            assert rest == len(toks), (rule, toks[rest:])
            self.rules[name] = node

    def _alternation(self, toks, i):
        alts = []
        node, i = self._concatenation(toks, i)
        alts.append(node)
        while i < len(toks) and toks[i] == ("punct", "/"):
            node, i = self._concatenation(toks, i + 1)
            alts.append(node)
        return (alts[0] if len(alts) == 1 else ("alt", tuple(alts))), i

    def _concatenation(self, toks, i):
        items = []
        while i < len(toks) and toks[i] not in (("punct", "/"), ("punct", ")"), ("punct", "]")):
            node, i = self._repetition(toks, i)
            items.append(node)
        assert items, "empty concatenation"
        return (items[0] if len(items) == 1 else ("cat", tuple(items))), i

    def _repetition(self, toks, i):
        lo, hi = 1, 1
        if toks[i][0] == "rep":
            r = toks[i][1]
            if "*" in r:
                a, b = r.split("*")
                lo = int(a) if a else 0
                hi = int(b) if b else None
            else:
                lo = hi = int(r)
            i += 1
        node, i = self._element(toks, i)
        if (lo, hi) != (1, 1):
            node = ("rep", node, lo, hi)
        return node, i

    def _element(self, toks, i):
        kind, val = toks[i]
        if kind == "name":
            return ("ref", val.lower()), i + 1
        if kind == "ci":
            return ("ci", val.lower()), i + 1
        if kind == "cs":
            return ("cs", val), i + 1
        if kind == "hex":
            if "-" in val:
                a, b = val.split("-")
                return ("range", int(a, 16), int(b, 16)), i + 1
            return ("cs", "".join(chr(int(h, 16)) for h in val.split("."))), i + 1
        if (kind, val) == ("punct", "("):
            node, i = self._alternation(toks, i + 1)
            assert toks[i] == ("punct", ")")
            return node, i + 1
        if (kind, val) == ("punct", "["):
            node, i = self._alternation(toks, i + 1)
            assert toks[i] == ("punct", "]")
            return ("rep", node, 0, 1), i + 1
        raise SyntaxError(f"ABNF element {toks[i]!r}")

    # ---- recognising
    def matches(self, rule, s):
        """True iff the whole of s is derivable from `rule`."""
        memo = {}
        return len(s) in self._m(("ref", rule.lower()), s, 0, memo)

    def _m(self, node, s, pos, memo):
        k = node[0]
        if k == "ref":
            key = (node[1], pos)
            r = memo.get(key)
            if r is None:
                memo[key] = frozenset()  # guards (non-existent) left recursion
                r = memo[key] = self._m(self.rules[node[1]], s, pos, memo)
            return r
        if k == "cs":
            t = node[1]
            return frozenset((pos + len(t),)) if s.startswith(t, pos) else frozenset()
        if k == "ci":
            t = node[1]
            return (
                frozenset((pos + len(t),))
                if s[pos : pos + len(t)].lower() == t and len(s) >= pos + len(t)
                else frozenset()
            )
        if k == "range":
            if pos < len(s) and node[1] <= ord(s[pos]) <= node[2]:
                return frozenset((pos + 1,))
            return frozenset()
        if k == "alt":
            out = set()
            for a in node[1]:
                out |= self._m(a, s, pos, memo)
            return frozenset(out)
        if k == "cat":
            cur = {pos}
            for item in node[1]:
                nxt = set()
                for p in cur:
                    nxt |= self._m(item, s, p, memo)
                cur = nxt
                if not cur:
                    break
            return frozenset(cur)
        if k == "rep":
            _, sub, lo, hi = node
            cur = {pos}
            count = 0
            out = set()
            if lo == 0:
                out.add(pos)
            seen = {pos}
            while cur and (hi is None or count < hi):
                nxt = set()
                for p in cur:
                    nxt |= self._m(sub, s, p, memo)
                count += 1
                if count >= lo:
                    new = nxt - out
                    out |= nxt
                    if hi is None:
                        nxt = new  # only new positions can lead anywhere new
                cur = nxt
                if hi is None and count >= lo and not cur:
                    break
                if hi is None and count > len(s) + lo + 1:
                    break
            return frozenset(out)
        raise AssertionError(node)


def _read(name):
    return open(os.path.join(HERE, name), encoding="utf8").read()


_G = {}


def jsonpath():
    g = _G.get("jp")
    if g is None:
        g = _G["jp"] = Grammar(_read("rfc9535.abnf"), _read("normalized_path.abnf"))
    return g


def iregexp():
    g = _G.get("ire")
    if g is None:
        g = _G["ire"] = Grammar(_read("iregexp.abnf"))
    return g


def in_language(text):
    """text derivable from jsonpath-query?"""
    return jsonpath().matches("jsonpath-query", text)


def is_normalized_path(text):
    return jsonpath().matches("normalized-path", text)
