"""R3 — reference evaluator: RFC 9535 sections 2.3 (selectors), 2.5 (segments),
2.3.5.2 (filter semantics, comparison table), 2.4 (function type conversions).

Nodes are (location tuple, value).  `evaluate(ast, doc)` is the deterministic
semantics (object members in the mapping's own order).  `permitted(ast, doc)` is the
set of all nodelists the RFC permits (nondeterministic object-member order,
descendant visit order any linear extension of parent<child / array order).
"""

from __future__ import annotations

import itertools

from . import iregexp
from .typing import BUILTINS, L, N, V


class _Nothing:
    def __repr__(self):
        return "NOTHING"


NOTHING = _Nothing()


# --------------------------------------------------------------------------
# comparison table (DESIGN.md appendix D)


def is_num(x):
    return isinstance(x, (int, float)) and not isinstance(x, bool)


def eq(a, b):
    if a is NOTHING or b is NOTHING:
        return a is NOTHING and b is NOTHING
    if isinstance(a, bool) or isinstance(b, bool):
        return isinstance(a, bool) and isinstance(b, bool) and a == b
    if a is None or b is None:
        return a is None and b is None
    if is_num(a) and is_num(b):
        return a == b
    if isinstance(a, str) and isinstance(b, str):
        return a == b
    if isinstance(a, list) and isinstance(b, list):
        return len(a) == len(b) and all(eq(x, y) for x, y in zip(a, b))
    if isinstance(a, dict) and isinstance(b, dict):
        return a.keys() == b.keys() and all(eq(a[k], b[k]) for k in a)
    return False


def lt(a, b):
    if is_num(a) and is_num(b):
        return a < b
    if isinstance(a, str) and isinstance(b, str):
        return a < b  # Python orders str by code point = Unicode scalar value
    return False


def compare(op, a, b):
    if op == "==":
        return eq(a, b)
    if op == "!=":
        return not eq(a, b)
    if op == "<":
        return lt(a, b)
    if op == ">":
        return lt(b, a)
    if op == "<=":
        return lt(a, b) or eq(a, b)
    if op == ">=":
        return lt(b, a) or eq(a, b)
    raise AssertionError(op)


# --------------------------------------------------------------------------
# slice arithmetic (RFC 2.3.4.2.2)


def slice_indices(ln, start, end, step):
    if step is None:
        step = 1
    if step == 0:
        return []
    if step > 0:
        start = 0 if start is None else start
        end = ln if end is None else end
    else:
        start = ln - 1 if start is None else start
        end = -ln - 1 if end is None else end
    ns = start if start >= 0 else ln + start
    ne = end if end >= 0 else ln + end
    out = []
    if step > 0:
        lower = min(max(ns, 0), ln)
        upper = min(max(ne, 0), ln)
        i = lower
        while i < upper:
            out.append(i)
            i += step
    else:
        upper = min(max(ns, -1), ln - 1)
        lower = min(max(ne, -1), ln - 1)
        i = upper
        while lower < i:
            out.append(i)
            i += step
    return out


# --------------------------------------------------------------------------
# functions


def fn_length(v):
    if isinstance(v, str):
        return len(v)
    if isinstance(v, (list, dict)):
        return len(v)
    return NOTHING


def fn_count(nodes):
    return len(nodes)


def fn_value(nodes):
    return nodes[0][1] if len(nodes) == 1 else NOTHING


def fn_match(s, p):
    if not isinstance(s, str) or not isinstance(p, str):
        return False
    r = iregexp.compile_(p)
    return r is not None and r.fullmatch(s)


def fn_search(s, p):
    if not isinstance(s, str) or not isinstance(p, str):
        return False
    r = iregexp.compile_(p)
    return r is not None and r.search(s)


BUILTIN_IMPL = {
    "length": fn_length,
    "count": fn_count,
    "value": fn_value,
    "match": fn_match,
    "search": fn_search,
}


class Env:
    """Semantic environment: registry of signatures + implementations over model
    values (NOTHING, python JSON values, list of (loc, value), bool)."""

    def __init__(self, sigs=None, impls=None):
        self.sigs = dict(BUILTINS if sigs is None else sigs)
        self.impls = dict(BUILTIN_IMPL if impls is None else impls)


DEFAULT = Env()


# --------------------------------------------------------------------------
# deterministic evaluation


class Evaluator:
    def __init__(self, env=DEFAULT):
        self.env = env

    def query(self, q, root, current):
        """Evaluate a query AST. q[1] says whether it starts at root or current."""
        base = root if q[1] == "$" else current
        # locations of embedded queries are relative to their start node; only used
        # for counting / value extraction, never reported.
        nodes = [((), base)]
        for seg in q[2]:
            nodes = self.segment(seg, nodes, root)
        return nodes

    def find(self, q, doc):
        nodes = [((), doc)]
        for seg in q[2]:
            nodes = self.segment(seg, nodes, doc)
        return nodes

    def segment(self, seg, nodes, root):
        kind, sels = seg
        out = []
        if kind == "child":
            for node in nodes:
                for sel in sels:
                    out.extend(self.selector(sel, node, root))
        else:
            for node in nodes:
                for d in self.descendants(node):
                    for sel in sels:
                        out.extend(self.selector(sel, d, root))
        return out

    def descendants(self, node):
        """node and all its descendants, document pre-order."""
        out = [node]
        loc, val = node
        if isinstance(val, dict):
            for k, v in val.items():
                out.extend(self.descendants((loc + (k,), v)))
        elif isinstance(val, list):
            for i, v in enumerate(val):
                out.extend(self.descendants((loc + (i,), v)))
        return out

    def children(self, node):
        loc, val = node
        if isinstance(val, dict):
            return [(loc + (k,), v) for k, v in val.items()]
        if isinstance(val, list):
            return [(loc + (i,), v) for i, v in enumerate(val)]
        return []

    def selector(self, sel, node, root):
        loc, val = node
        k = sel[0]
        if k == "name":
            if isinstance(val, dict) and sel[1] in val:
                return [(loc + (sel[1],), val[sel[1]])]
            return []
        if k == "wild":
            return self.children(node)
        if k == "index":
            if isinstance(val, list):
                i = sel[1]
                j = i if i >= 0 else len(val) + i
                if 0 <= j < len(val):
                    return [(loc + (j,), val[j])]
            return []
        if k == "slice":
            if isinstance(val, list):
                return [(loc + (i,), val[i]) for i in slice_indices(len(val), sel[1], sel[2], sel[3])]
            return []
        if k == "filter":
            return [c for c in self.children(node) if self.logical(sel[1], root, c[1])]
        raise AssertionError(sel)

    # ---- filter expressions
    def logical(self, e, root, cur):
        k = e[0]
        if k == "or":
            return any([self.logical(x, root, cur) for x in e[1]])
        if k == "and":
            return all([self.logical(x, root, cur) for x in e[1]])
        if k == "not":
            return not self.logical(e[1], root, cur)
        if k == "paren":
            return self.logical(e[1], root, cur)
        if k == "test":
            x = e[1]
            if x[0] == "query":
                return len(self.query(x, root, cur)) > 0
            ret = self.env.sigs[x[1]][1]
            r = self.call(x, root, cur)
            if ret == L:
                return self.as_bool(r, x)
            if ret == N:
                return len(r) > 0
            raise AssertionError("ValueType function used as test (ill-typed)")
        if k == "cmp":
            return compare(e[1], self.comparable(e[2], root, cur), self.comparable(e[3], root, cur))
        raise AssertionError(e)

    def as_bool(self, r, f):
        if r is True or r is False:
            return r
        raise AssertionError(f"LogicalType function {f[1]} returned {r!r}")

    def comparable(self, x, root, cur):
        k = x[0]
        if k == "lit":
            return x[1]
        if k == "query":
            ns = self.query(x, root, cur)
            return ns[0][1] if len(ns) == 1 else NOTHING
        if k == "func":
            return self.call(x, root, cur)
        raise AssertionError(x)

    def call(self, f, root, cur):
        _, name, args = f
        params, _ret = self.env.sigs[name]
        vals = []
        for pt, a in zip(params, args):
            vals.append(self.argument(pt, a, root, cur))
        return self.env.impls[name](*vals)

    def argument(self, pt, a, root, cur):
        ak = a[0]
        if pt == V:
            if ak == "arg_lit":
                return a[1][1]
            if ak == "arg_query":
                ns = self.query(a[1], root, cur)
                return ns[0][1] if len(ns) == 1 else NOTHING
            if ak == "arg_func":
                return self.call(a[1], root, cur)
        elif pt == N:
            if ak == "arg_query":
                return self.query(a[1], root, cur)
            if ak == "arg_func":
                return self.call(a[1], root, cur)
        else:
            if ak == "arg_query":
                return len(self.query(a[1], root, cur)) > 0
            if ak == "arg_logical":
                return self.logical(a[1], root, cur)
            if ak == "arg_func":
                r = self.call(a[1], root, cur)
                ret = self.env.sigs[a[1][1]][1]
                if ret == N:
                    return len(r) > 0
                return self.as_bool(r, a[1])
        raise AssertionError(("ill-typed argument", pt, a))


def evaluate(ast, doc, env=DEFAULT):
    return Evaluator(env).find(ast, doc)


# --------------------------------------------------------------------------
# nondeterministic semantics: the set of permitted nodelists


def _perms(items):
    return [list(p) for p in itertools.permutations(items)]


def linear_extensions(succ_constraints, nodes):
    """All orderings of `nodes` (hashable ids) compatible with `preds`: id -> set of ids
    that must come earlier."""
    preds = succ_constraints
    out = []
    n = len(nodes)

    def rec(order, placed):
        if len(order) == n:
            out.append(list(order))
            return
        for x in nodes:
            if x in placed:
                continue
            if preds[x] <= placed:
                placed.add(x)
                order.append(x)
                rec(order, placed)
                order.pop()
                placed.discard(x)

    rec([], set())
    return out


class Permitted(Evaluator):
    """Set-valued evaluation. Filter *truth* never depends on order (existence,
    count, single values), so embedded queries are evaluated deterministically."""

    LIMIT = 200000

    def find_set(self, q, doc):
        states = {()}
        # a state is a tuple of nodes (loc, id(value)) -> keep real nodes aside
        self.vals = {}
        states = [[((), doc)]]
        for seg in q[2]:
            new = []
            seen = set()
            for nodes in states:
                for res in self.segment_set(seg, nodes, doc):
                    key = tuple(loc for loc, _ in res)
                    if key not in seen:
                        seen.add(key)
                        new.append(res)
                        if len(new) > self.LIMIT:
                            raise OverflowError("permitted set too large")
            states = new
        return states

    def selector_set(self, sel, node, root):
        k = sel[0]
        loc, val = node
        if k == "wild" and isinstance(val, dict):
            return _perms(self.children(node))
        if k == "filter" and isinstance(val, dict):
            return _perms(self.selector(sel, node, root))
        return [self.selector(sel, node, root)]

    def child_set(self, sels, node, root):
        """all permitted results of applying the selector list to one node."""
        alts = [self.selector_set(sel, node, root) for sel in sels]
        return [sum(combo, []) for combo in itertools.product(*alts)]

    def segment_set(self, seg, nodes, root):
        kind, sels = seg
        per_node = []
        for node in nodes:
            if kind == "child":
                per_node.append(self.child_set(sels, node, root))
            else:
                per_node.append(self.desc_set(sels, node, root))
        out = []
        for combo in itertools.product(*per_node):
            out.append(sum(combo, []))
            if len(out) > self.LIMIT:
                raise OverflowError("permitted set too large")
        return out

    def desc_set(self, sels, node, root):
        # containers only: scalars contribute nothing to any selector
        conts = []
        preds = {}

        def walk(nd, parent):
            idx = len(conts)
            conts.append(nd)
            preds[idx] = set() if parent is None else {parent}
            loc, val = nd
            prev = None
            if isinstance(val, list):
                for i, v in enumerate(val):
                    if isinstance(v, (list, dict)):
                        me = walk((loc + (i,), v), idx)
                        if prev is not None:
                            preds[me].add(prev)
                        prev = me
            elif isinstance(val, dict):
                for k, v in val.items():
                    if isinstance(v, (list, dict)):
                        walk((loc + (k,), v), idx)
            return idx

        if not isinstance(node[1], (list, dict)):
            return [[]]
        walk(node, None)
        results = []
        seen = set()
        alts = [self.child_set(sels, c, root) for c in conts]
        for order in linear_extensions(preds, list(range(len(conts)))):
            for combo in itertools.product(*[alts[i] for i in order]):
                res = sum(combo, [])
                key = tuple(loc for loc, _ in res)
                if key not in seen:
                    seen.add(key)
                    results.append(res)
                    if len(results) > self.LIMIT:
                        raise OverflowError("permitted set too large")
        return results


def permitted(ast, doc, env=DEFAULT):
    """set of tuples of locations: every nodelist RFC 9535 permits."""
    return {tuple(loc for loc, _ in res) for res in Permitted(env).find_set(ast, doc)}
