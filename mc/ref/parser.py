"""R2 — hand-written recursive-descent recogniser/parser for the RFC 9535 ABNF.

parse(text) -> Result(status, ast, grey, pos)
  status "ok"      text is derivable from `jsonpath-query`
         "outside" text is not derivable
  grey   True when the verdict depends on a disputed reading (DESIGN.md section 6):
         blank space inside the brackets of a singular query used as comparand.

AST (tuples):
  query     ("query", "$"|"@", (segment, ...))
  segment   ("child"|"desc", (selector, ...))
  selector  ("name", str) | ("wild",) | ("index", int) | ("slice", a, b, c) | ("filter", expr)
  expr      ("or", (e, e, ...)) | ("and", (e, e, ...)) | ("not", e) | ("paren", e)
            | ("cmp", op, comparable, comparable) | ("test", query | func)
  comparable / operand
            ("lit", value, text) | query | func
  func      ("func", name, (arg, ...))
  arg       ("arg_lit", lit) | ("arg_query", query) | ("arg_func", func) | ("arg_logical", expr)

Each query tuple used as a comparand additionally passed the singular-query test.
"""

from __future__ import annotations

BLANK = " \t\n\r"
CMP_OPS = ("==", "!=", "<=", ">=", "<", ">")


class Fail(Exception):
    def __init__(self, pos, what=""):
        self.pos = pos
        self.what = what


class Result:
    __slots__ = ("status", "ast", "grey", "pos", "what")

    def __init__(self, status, ast=None, grey=False, pos=-1, what=""):
        self.status = status
        self.ast = ast
        self.grey = grey
        self.pos = pos
        self.what = what

    def __repr__(self):
        return f"Result({self.status}, grey={self.grey}, pos={self.pos}, {self.what})"


def is_name_first(c):
    o = ord(c)
    return (
        (0x41 <= o <= 0x5A)
        or (0x61 <= o <= 0x7A)
        or c == "_"
        or (0x80 <= o <= 0xD7FF)
        or (0xE000 <= o <= 0x10FFFF)
    )


def is_name_char(c):
    return is_name_first(c) or ("0" <= c <= "9")


def is_unescaped(c):
    o = ord(c)
    return (
        o in (0x20, 0x21)
        or (0x23 <= o <= 0x26)
        or (0x28 <= o <= 0x5B)
        or (0x5D <= o <= 0xD7FF)
        or (0xE000 <= o <= 0x10FFFF)
    )


HEX = "0123456789abcdefABCDEF"
SIMPLE_ESC = {"b": "\b", "f": "\f", "n": "\n", "r": "\r", "t": "\t", "/": "/", "\\": "\\"}


class _P:
    def __init__(self, s):
        self.s = s
        self.n = len(s)
        self.grey = False
        self.far = 0  # furthest failure position (diagnostics only)

    # -- helpers
    def fail(self, pos, what=""):
        if pos > self.far:
            self.far = pos
        raise Fail(pos, what)

    def ws(self, p):
        s, n = self.s, self.n
        while p < n and s[p] in BLANK:
            p += 1
        return p

    def at(self, p):
        return self.s[p] if p < self.n else ""

    # -- top level
    def jsonpath_query(self):
        if self.at(0) != "$":
            self.fail(0, "expected $")
        segs, p = self.segments(1)
        if p != self.n:
            self.fail(p, "trailing input")
        return ("query", "$", segs)

    def segments(self, p):
        segs = []
        while True:
            q = self.ws(p)
            c = self.at(q)
            if c != "." and c != "[":
                break
            try:
                seg, p2 = self.segment(q)
            except Fail:
                # *(S segment): zero further repetitions; whatever follows must be
                # accepted by the context at p (before the blanks)
                break
            segs.append(seg)
            p = p2
        return tuple(segs), p

    def segment(self, p):
        s = self.s
        if s.startswith("..", p):
            q = p + 2
            c = self.at(q)
            if c == "[":
                sels, q = self.bracketed(q)
                return ("desc", sels), q
            if c == "*":
                return ("desc", (("wild",),)), q + 1
            name, q = self.shorthand(q)
            return ("desc", (("name", name),)), q
        c = self.at(p)
        if c == ".":
            q = p + 1
            if self.at(q) == "*":
                return ("child", (("wild",),)), q + 1
            name, q = self.shorthand(q)
            return ("child", (("name", name),)), q
        if c == "[":
            sels, q = self.bracketed(p)
            return ("child", sels), q
        self.fail(p, "segment")

    def shorthand(self, p):
        c = self.at(p)
        if not c or not is_name_first(c):
            self.fail(p, "name-first")
        q = p + 1
        s, n = self.s, self.n
        while q < n and is_name_char(s[q]):
            q += 1
        return s[p:q], q

    def bracketed(self, p):
        # "[" S selector *(S "," S selector) S "]"
        assert self.s[p] == "["
        q = self.ws(p + 1)
        sel, q = self.selector(q)
        sels = [sel]
        while True:
            q = self.ws(q)
            c = self.at(q)
            if c == ",":
                q = self.ws(q + 1)
                sel, q = self.selector(q)
                sels.append(sel)
            elif c == "]":
                return tuple(sels), q + 1
            else:
                self.fail(q, "',' or ']'")

    def selector(self, p):
        c = self.at(p)
        if c == "'" or c == '"':
            v, q = self.string_literal(p)
            return ("name", v), q
        if c == "*":
            return ("wild",), p + 1
        if c == "?":
            q = self.ws(p + 1)
            e, q = self.logical_or(q)
            return ("filter", e), q
        # slice-selector / index-selector
        try:
            return self.slice_selector(p)
        except Fail:
            pass
        v, q = self.int_(p)
        return ("index", v), q

    def int_(self, p):
        # int = "0" / (["-"] DIGIT1 *DIGIT)
        s, n = self.s, self.n
        c = self.at(p)
        if c == "0":
            return 0, p + 1
        q = p
        if c == "-":
            q += 1
        d = self.at(q)
        if not d or not ("1" <= d <= "9"):
            self.fail(p, "int")
        q += 1
        while q < n and "0" <= s[q] <= "9":
            q += 1
        return int(s[p:q]), q

    def opt_int(self, p):
        try:
            return self.int_(p)
        except Fail:
            return None, p

    def slice_selector(self, p):
        # [start S] ":" S [end S] [":" [S step]]
        start, q = self.opt_int(p)
        if start is not None:
            q = self.ws(q)
        if self.at(q) != ":":
            self.fail(q, "':'")
        q = self.ws(q + 1)
        end, q2 = self.opt_int(q)
        if end is not None:
            q = self.ws(q2)
        step = None
        if self.at(q) == ":":
            q += 1
            q3 = self.ws(q)
            step, q4 = self.opt_int(q3)
            if step is not None:
                q = q4
        return ("slice", start, end, step), q

    def string_literal(self, p):
        s, n = self.s, self.n
        quote = s[p]
        other = '"' if quote == "'" else "'"
        out = []
        q = p + 1
        while True:
            if q >= n:
                self.fail(q, "unterminated string")
            c = s[q]
            if c == quote:
                return "".join(out), q + 1
            if c == "\\":
                e = self.at(q + 1)
                if e in SIMPLE_ESC and e:
                    out.append(SIMPLE_ESC[e])
                    q += 2
                elif e == quote:
                    out.append(quote)
                    q += 2
                elif e == "u":
                    ch, q = self.hexchar(q + 2)
                    out.append(ch)
                else:
                    self.fail(q, "bad escape")
            elif c == other or is_unescaped(c):
                out.append(c)
                q += 1
            else:
                self.fail(q, "character not allowed in string")

    def hex4(self, p):
        h = self.s[p : p + 4]
        if len(h) != 4 or any(c not in HEX for c in h):
            self.fail(p, "4HEXDIG")
        return int(h, 16)

    def hexchar(self, p):
        cp = self.hex4(p)
        if 0xDC00 <= cp <= 0xDFFF:
            self.fail(p, "lone low surrogate")
        if 0xD800 <= cp <= 0xDBFF:
            if self.s[p + 4 : p + 6] != "\\u":
                self.fail(p + 4, "low surrogate escape expected")
            lo = self.hex4(p + 6)
            if not (0xDC00 <= lo <= 0xDFFF):
                self.fail(p + 6, "low surrogate expected")
            return chr(0x10000 + ((cp - 0xD800) << 10) + (lo - 0xDC00)), p + 10
        return chr(cp), p + 4

    # -- filter expressions
    def logical_or(self, p):
        e, p = self.logical_and(p)
        items = [e]
        while True:
            q = self.ws(p)
            if self.s.startswith("||", q):
                q = self.ws(q + 2)
                e, p = self.logical_and(q)
                items.append(e)
            else:
                break
        return (items[0] if len(items) == 1 else ("or", tuple(items))), p

    def logical_and(self, p):
        e, p = self.basic(p)
        items = [e]
        while True:
            q = self.ws(p)
            if self.s.startswith("&&", q):
                q = self.ws(q + 2)
                e, p = self.basic(q)
                items.append(e)
            else:
                break
        return (items[0] if len(items) == 1 else ("and", tuple(items))), p

    def basic(self, p):
        neg = False
        q = p
        if self.at(q) == "!":
            neg = True
            q = self.ws(q + 1)
        if self.at(q) == "(":
            q2 = self.ws(q + 1)
            e, q2 = self.logical_or(q2)
            q2 = self.ws(q2)
            if self.at(q2) != ")":
                self.fail(q2, "')'")
            node = ("paren", e)
            return (("not", node) if neg else node), q2 + 1
        if neg:
            x, q2 = self.test_operand(q)
            return ("not", ("test", x)), q2
        # comparison-expr or test-expr
        x, q2, strict = self.operand(q)
        q3 = self.ws(q2)
        op = self.cmp_op(q3)
        if op is None:
            if x[0] == "lit":
                self.fail(q2, "literal must be compared")
            return ("test", x), q2
        if x[0] == "query":
            if not is_singular(x):
                self.fail(q, "non-singular query as comparand")
            if not strict:
                self.grey = True
        q4 = self.ws(q3 + len(op))
        y, q5, strict2 = self.operand(q4)
        if y[0] == "query":
            if not is_singular(y):
                self.fail(q4, "non-singular query as comparand")
            if not strict2:
                self.grey = True
        return ("cmp", op, x, y), q5

    def cmp_op(self, p):
        s = self.s
        for op in CMP_OPS:
            if s.startswith(op, p):
                return op
        return None

    def test_operand(self, p):
        c = self.at(p)
        if c == "$" or c == "@":
            q, p2, _ = self.filter_query(p)
            return q, p2
        f = self.try_function(p)
        if f is not None:
            return f
        self.fail(p, "query or function expected")

    def operand(self, p):
        """literal / filter-query / function-expr -> (node, pos, strict_singular)"""
        c = self.at(p)
        if c == "$" or c == "@":
            return self.filter_query(p)
        if c == "'" or c == '"':
            v, q = self.string_literal(p)
            return ("lit", v, self.s[p:q]), q, True
        f = self.try_function(p)
        if f is not None:
            return f[0], f[1], True
        for kw, val in (("true", True), ("false", False), ("null", None)):
            if self.s.startswith(kw, p):
                return ("lit", val, kw), p + len(kw), True
        v, q = self.number(p)
        return ("lit", v, self.s[p:q]), q, True

    def filter_query(self, p):
        root = self.s[p]
        start = p + 1
        segs, q = self.segments(start)
        node = ("query", root, segs)
        # strict = derivable from singular-query (no blank inside brackets)
        strict = True
        if is_singular(node):
            strict = self._strict_singular(start, q)
        return node, q, strict

    def _strict_singular(self, p, end):
        """Re-scan s[p:end] with the singular-query-segments ABNF (no S in brackets)."""
        s = self.s
        while True:
            q = self.ws(p)
            if q >= end:
                return True
            if s[q] == ".":
                try:
                    _, p = self.shorthand(q + 1)
                except Fail:
                    return False
            elif s[q] == "[":
                c = self.at(q + 1)
                try:
                    if c == "'" or c == '"':
                        _, r = self.string_literal(q + 1)
                    else:
                        _, r = self.int_(q + 1)
                except Fail:
                    return False
                if self.at(r) != "]":
                    return False
                p = r + 1
            else:
                return False

    def try_function(self, p):
        s, n = self.s, self.n
        c = self.at(p)
        if not c or not ("a" <= c <= "z"):
            return None
        q = p + 1
        while q < n and (("a" <= s[q] <= "z") or s[q] == "_" or ("0" <= s[q] <= "9")):
            q += 1
        if self.at(q) != "(":
            return None
        name = s[p:q]
        q = self.ws(q + 1)
        args = []
        if self.at(q) == ")":
            return ("func", name, ()), q + 1
        while True:
            a, q = self.function_argument(q)
            args.append(a)
            q = self.ws(q)
            c = self.at(q)
            if c == ",":
                q = self.ws(q + 1)
            elif c == ")":
                return ("func", name, tuple(args)), q + 1
            else:
                self.fail(q, "',' or ')' in argument list")

    def function_argument(self, p):
        # literal / filter-query / logical-expr / function-expr
        far = self.far
        grey = self.grey
        try:
            e, q = self.logical_or(p)
            if e[0] == "test":
                x = e[1]
                if x[0] == "query":
                    return ("arg_query", x), q
                return ("arg_func", x), q
            return ("arg_logical", e), q
        except Fail:
            self.grey = grey
        x, q, _ = self.operand(p)
        if x[0] != "lit":
            self.far = max(self.far, far)
            self.fail(p, "function argument")
        return ("arg_lit", x), q

    def number(self, p):
        # number = (int / "-0") [frac] [exp]
        s, n = self.s, self.n
        q = p
        if s.startswith("-0", p):
            q = p + 2
        else:
            _, q = self.int_(p)
        is_int = True
        if self.at(q) == "." and "0" <= self.at(q + 1) <= "9" and self.at(q + 1):
            q += 2
            while q < n and "0" <= s[q] <= "9":
                q += 1
            is_int = False
        if self.at(q) in ("e", "E") and self.at(q):
            r = q + 1
            if self.at(r) in ("+", "-") and self.at(r):
                r += 1
            if self.at(r) and "0" <= self.at(r) <= "9":
                while r < n and "0" <= s[r] <= "9":
                    r += 1
                q = r
                is_int = False
        text = s[p:q]
        if is_int:
            v = int(text)
            if abs(v) > 2**53 - 1:
                self.grey = True
            return v, q
        try:
            v = float(text)
        except (ValueError, OverflowError):
            self.grey = True
            return 0.0, q
        if v in (float("inf"), float("-inf")):
            self.grey = True
        elif v == int(v) and abs(v) > 2**53 - 1:
            self.grey = True
        return v, q


def is_singular(q):
    for kind, sels in q[2]:
        if kind != "child" or len(sels) != 1 or sels[0][0] not in ("name", "index"):
            return False
    return True


def parse(text):
    p = _P(text)
    try:
        ast = p.jsonpath_query()
    except Fail as f:
        return Result("outside", None, p.grey, max(p.far, f.pos), f.what)
    except RecursionError:
        return Result("outside", None, True, -1, "too deep for the reference parser")
    return Result("ok", ast, p.grey)


def has_lone_surrogate(text):
    return any(0xD800 <= ord(c) <= 0xDFFF for c in text)
