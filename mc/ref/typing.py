"""R2 — validity on top of the grammar: RFC 9535 2.4.3 well-typedness, singular
comparands (enforced by the parser), integer range (2.1 / 2.3.3 / 2.3.4)."""

from . import parser as P

V, L, N = "V", "L", "N"

BUILTINS = {
    "length": ((V,), V),
    "count": ((N,), V),
    "match": ((V, V), L),
    "search": ((V, V), L),
    "value": ((N,), V),
}

MAXI = 2**53 - 1
MINI = -(2**53) + 1


class Invalid(Exception):
    def __init__(self, why, kind="type"):
        self.why = why
        self.kind = kind  # "type" | "name" | "range"


class _T:
    def __init__(self, registry, imin, imax):
        self.reg = registry
        self.imin = imin
        self.imax = imax
        self.grey = False

    def query(self, q):
        for _, sels in q[2]:
            for sel in sels:
                k = sel[0]
                if k == "index":
                    self.rng(sel[1])
                elif k == "slice":
                    for v in sel[1:]:
                        if v is not None:
                            self.rng(v)
                elif k == "filter":
                    self.expr(sel[1])

    def rng(self, v):
        if v < self.imin or v > self.imax:
            raise Invalid(f"integer {v} out of range", "range")

    def expr(self, e):
        k = e[0]
        if k in ("or", "and"):
            for x in e[1]:
                self.expr(x)
        elif k in ("not", "paren"):
            self.expr(e[1])
        elif k == "test":
            x = e[1]
            if x[0] == "query":
                self.query(x)
            else:
                ret = self.func(x)
                if ret == V:
                    raise Invalid(f"{x[1]}() returns ValueType, used as test")
        elif k == "cmp":
            for x in (e[2], e[3]):
                if x[0] == "query":
                    self.query(x)
                elif x[0] == "func":
                    ret = self.func(x)
                    if ret != V:
                        raise Invalid(f"{x[1]}() does not return ValueType, compared")
        else:
            raise AssertionError(e)

    def func(self, f):
        _, name, args = f
        sig = self.reg.get(name)
        if sig is None:
            raise Invalid(f"unknown function {name}", "name")
        params, ret = sig
        # check the arguments' own validity first (nested queries / calls)
        kinds = []
        for a in args:
            ak = a[0]
            if ak == "arg_lit":
                kinds.append(("lit", None))
            elif ak == "arg_query":
                self.query(a[1])
                kinds.append(("query", a[1]))
            elif ak == "arg_func":
                kinds.append(("func", self.func(a[1])))
            else:
                self.expr(a[1])
                kinds.append(("logical", None))
        if len(args) != len(params):
            raise Invalid(f"{name}() takes {len(params)} argument(s), got {len(args)}")
        for i, (pt, (ak, info)) in enumerate(zip(params, kinds)):
            if pt == V:
                ok = (
                    ak == "lit"
                    or (ak == "query" and P.is_singular(info))
                    or (ak == "func" and info == V)
                )
            elif pt == L:
                ok = ak in ("query", "logical") or (ak == "func" and info in (L, N))
            else:
                ok = ak == "query" or (ak == "func" and info == N)
            if not ok:
                raise Invalid(f"{name}() argument {i} is not of type {pt}")
        return ret


class Verdict:
    __slots__ = ("cls", "ast", "why", "kind", "grey")

    def __init__(self, cls, ast=None, why="", kind="", grey=False):
        self.cls = cls  # "valid" | "ill-typed" | "outside" | "grey"
        self.ast = ast
        self.why = why
        self.kind = kind
        self.grey = grey

    def __repr__(self):
        return f"Verdict({self.cls}, {self.why})"


def classify(text, registry=BUILTINS, imin=MINI, imax=MAXI):
    """valid / ill-typed / outside / grey for a query string."""
    if P.has_lone_surrogate(text):
        return Verdict("grey", why="lone surrogate in query text", grey=True)
    r = P.parse(text)
    if r.status != "ok":
        if r.grey and r.what == "too deep for the reference parser":
            return Verdict("grey", why=r.what, grey=True)
        return Verdict("outside", why=f"{r.what} at {r.pos}")
    t = _T(registry, imin, imax)
    try:
        t.query(r.ast)
    except Invalid as inv:
        return Verdict("ill-typed", r.ast, inv.why, inv.kind, grey=r.grey)
    if r.grey:
        return Verdict("grey", r.ast, "grey zone (DESIGN.md section 6)", grey=True)
    return Verdict("valid", r.ast)
