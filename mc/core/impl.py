"""Thin helpers around the public API of the package under test."""
import json

import jsonpath_rfc9535 as jp
from jsonpath_rfc9535 import JSONPathError


class SubList(list):
    """stands for any list subclass when a recorded case is rebuilt"""


class SubStr(str):
    """stands for any str subclass when a recorded case is rebuilt"""


def jsonable(v):
    """A JSON-able rendering that keeps bool/int/float and key order apart, and records whether a
    container / string is an instance of a SUBCLASS of dict / list / str (rebuilt by unjsonable as
    OrderedDict / SubList / SubStr)."""
    if isinstance(v, bool) or v is None:
        return v
    if isinstance(v, str):
        return v if type(v) is str else {"$str": str(v), "$sub": type(v).__name__}
    if isinstance(v, int):
        return v
    if isinstance(v, float):
        return {"$float": repr(v)}
    if isinstance(v, list):
        items = [jsonable(x) for x in v]
        return items if type(v) is list else {"$list": items, "$sub": type(v).__name__}
    if isinstance(v, dict):
        out = {"$obj": [[k, jsonable(x)] for k, x in v.items()]}
        if type(v) is not dict:
            out["$sub"] = type(v).__name__
        return out
    return {"$py": type(v).__name__ + ":" + repr(v)[:80]}


def unjsonable(v):
    if isinstance(v, list):
        return [unjsonable(x) for x in v]
    if isinstance(v, dict):
        if "$float" in v:
            return float(v["$float"])
        if "$str" in v:
            return SubStr(v["$str"])
        if "$list" in v:
            return SubList(unjsonable(x) for x in v["$list"])
        if "$obj" in v:
            pairs = [(k, unjsonable(x)) for k, x in v["$obj"]]
            if "$sub" in v:
                import collections
                return collections.OrderedDict(pairs)
            return dict(pairs)
    return v


def same_json(a, b):
    """Structural equality that distinguishes bool from number and int from float
    only by value (1 == 1.0 equal as JSON numbers), and respects key order not."""
    if isinstance(a, bool) or isinstance(b, bool):
        return isinstance(a, bool) and isinstance(b, bool) and a == b
    if a is None or b is None:
        return a is None and b is None
    if isinstance(a, (int, float)) and isinstance(b, (int, float)):
        return a == b
    if isinstance(a, str) and isinstance(b, str):
        return a == b
    if isinstance(a, list) and isinstance(b, list):
        return len(a) == len(b) and all(same_json(x, y) for x, y in zip(a, b))
    if isinstance(a, dict) and isinstance(b, dict):
        return a.keys() == b.keys() and all(same_json(a[k], b[k]) for k in a)
    return False


def follow(root, location):
    cur = root
    for k in location:
        cur = cur[k]
    return cur


def run(fn, *args):
    """-> ("ok", result) | ("err", ExceptionClassName, is_jsonpath_error, text)"""
    try:
        return ("ok", fn(*args))
    except JSONPathError as e:
        return ("err", type(e).__name__, True, _safe_str(e))
    except RecursionError as e:
        return ("err", type(e).__name__, False, _safe_str(e))
    except Exception as e:  # noqa: BLE001
        return ("err", type(e).__name__, False, _safe_str(e))


def _safe_str(e):
    try:
        return str(e)[:200]
    except Exception as e2:  # noqa: BLE001
        return f"<str() failed: {type(e2).__name__}>"


def nodes_obs(nodes):
    """[(location list, jsonable value)] for a nodelist."""
    return [[list(n.location), jsonable(n.value)] for n in nodes]


def find_obs(query, doc, env=None):
    r = run((env or jp).find, query, doc)
    if r[0] == "ok":
        return ("ok", nodes_obs(r[1]))
    return r
