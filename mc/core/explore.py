"""Core of the explicit-state explorer: sharded exhaustive enumeration over 16
processes, violation bookkeeping, known-finding matching, replay files, evidence.

A check module provides

    PROPERTY            "C07"
    RULE                text: how cases are enumerated / what counts as non-trivial
    shards(tier)        -> list of JSON-able shard descriptors (a partition of the
                           bounded space; every run visits all of them)
    run_shard(desc)     -> Shard (counters + violations + samples)
    check_case(case)    -> None | violation dict   (used by replay, no explorer)
    BOUNDS(tier)        -> dict describing the bound that was completed

Nothing here samples: VERIF_SEED only rotates the order of the shard list.
"""

from __future__ import annotations

import hashlib
import json
import multiprocessing as mp
import os
import signal
import subprocess
import sys
import time
import traceback

VERIF = os.path.dirname(os.path.dirname(os.path.dirname(os.path.abspath(__file__))))
REPO = os.environ.get("VERIF_REPO", "/repo")
NPROC = int(os.environ.get("VERIF_NPROC", "16"))


# --------------------------------------------------------------------------
# per-case watchdog


class CaseTimeout(BaseException):
    """Raised inside a case by SIGALRM.  BaseException: `except Exception` in the
    code under test cannot swallow it."""


def _alarm(signum, frame):  # noqa: ARG001
    raise CaseTimeout()


def with_timeout(fn, seconds, *args):
    """Run fn(*args) under a wall-clock budget (main thread of a worker only)."""
    old = signal.signal(signal.SIGALRM, _alarm)
    signal.setitimer(signal.ITIMER_REAL, seconds)
    try:
        return fn(*args)
    finally:
        signal.setitimer(signal.ITIMER_REAL, 0)
        signal.signal(signal.SIGALRM, old)


# --------------------------------------------------------------------------
# canonical keys


def canon(obj) -> str:
    return json.dumps(obj, sort_keys=True, ensure_ascii=True, separators=(",", ":"))


def case_key(prop: str, case, obs: str) -> str:
    """Key of a (failing) case: input plus a coarse observed-outcome class."""
    return hashlib.sha1(
        canon({"p": prop, "in": case, "obs": obs}).encode()
    ).hexdigest()[:20]


# --------------------------------------------------------------------------
# shard result


class Shard:
    """Counters collected while exploring one shard.

    Violations are matched against the committed known-finding keys as they are
    recorded: listed ones are only counted (per finding), unlisted ones are kept in
    full (up to MAX_KEEP per shard; all are counted).
    """

    __slots__ = (
        "prop",
        "states",
        "transitions",
        "traces",
        "evaluations",
        "nontrivial",
        "violations",
        "nfresh",
        "known",
        "samples",
        "extra",
        "_seen",
    )

    MAX_KEEP = 10**9 if os.environ.get("VERIF_DUMP") else 60

    def __init__(self, prop):
        self.prop = prop
        self.states = 0
        self.transitions = 0
        self.traces = 0
        self.evaluations = 0
        self.nontrivial = 0
        self.violations = []
        self.nfresh = 0
        self.known = {}
        self.samples = []
        self.extra = {}
        self._seen = set()

    def violation(self, v):
        key = case_key(self.prop, v["case"], v["obs"])
        if key in self._seen:
            return
        self._seen.add(key)
        fid = findings_for(self.prop).match(key)
        if fid:
            self.known[fid] = self.known.get(fid, 0) + 1
            return
        self.nfresh += 1
        if len(self.violations) < self.MAX_KEEP:
            v["key"] = key
            self.violations.append(v)

    def sample(self, s, limit=2):
        if len(self.samples) < limit:
            self.samples.append(s)

    def bump(self, name, n=1):
        self.extra[name] = self.extra.get(name, 0) + n

    def pack(self):
        return {k: getattr(self, k) for k in self.__slots__ if k != "_seen"}


_FINDINGS = {}


def findings_for(prop):
    f = _FINDINGS.get(prop)
    if f is None:
        f = _FINDINGS[prop] = Findings(prop)
    return f


def violation(kind, case, expected, observed, obs_class=None, **kw):
    """Build a violation record. obs_class is the coarse class used in the key."""
    v = {
        "kind": kind,
        "case": case,
        "expected": expected,
        "observed": observed,
        "obs": obs_class if obs_class is not None else kind,
    }
    v.update(kw)
    return v


# --------------------------------------------------------------------------
# known findings


class Findings:
    """known_findings.txt + known/<F-id>.keys.  Never written at run time."""

    def __init__(self, prop):
        self.prop = prop
        self.open = {}  # fid -> description
        self.keys = {}  # key -> fid
        path = os.path.join(VERIF, "known_findings.txt")
        if os.path.exists(path):
            for line in open(path, encoding="utf8"):
                line = line.strip()
                if not line.startswith("open:"):
                    continue
                fields = line[5:].split(None, 2)
                kv = dict(f.split("=", 1) for f in fields[:2] if "=" in f)
                if kv.get("property") != prop:
                    continue
                fid = kv.get("finding")
                self.open[fid] = fields[2] if len(fields) > 2 else ""
                kpath = os.path.join(VERIF, "known", fid + ".keys")
                if os.path.exists(kpath):
                    for k in open(kpath, encoding="utf8"):
                        k = k.strip()
                        if k and not k.startswith("#"):
                            self.keys[k.split()[0]] = fid

    def match(self, key):
        return self.keys.get(key)


# --------------------------------------------------------------------------
# running


def _worker(args):
    modname, desc = args
    try:
        mod = sys.modules.get(modname) or __import__(modname, fromlist=["x"])
        sh = mod.run_shard(desc)
        for v in sh.violations:
            v.setdefault("shard", desc)
        return ("ok", desc, sh.pack())
    except BaseException as e:  # noqa: BLE001
        text = traceback.format_exc()
        if _raised_inside_package(e):
            # an exception escaping from the code under test while the harness performs an
            # operation that works on the unchanged tree: the property cannot hold there
            return ("crash", desc, text[-1500:])
        return ("err", desc, text)


def _raised_inside_package(exc):
    if isinstance(exc, (AssertionError, KeyboardInterrupt, SystemExit, MemoryError)):
        return False
    tb = exc.__traceback__
    last = None
    while tb is not None:
        last = tb
        tb = tb.tb_next
    if last is None:
        return False
    fn = os.path.realpath(last.tb_frame.f_code.co_filename)
    return fn.startswith(os.path.realpath(os.path.join(REPO, "jsonpath_rfc9535")) + os.sep)


def shard_crash_case(mod, case):
    """check_case for {"shard": desc}: does running that shard still crash inside the package?"""
    try:
        mod.run_shard(case["shard"])
    except BaseException as e:  # noqa: BLE001
        if _raised_inside_package(e):
            return violation("crash-in-package", case, "the harness operation completes",
                             {"raised": type(e).__name__, "msg": str(e)[:200]}, "crash")
        raise
    return None


def machinery_error(msg):
    print("MACHINERY-ERROR: " + msg, flush=True)
    sys.exit(2)


def run_check(mod, tier, seed):
    prop = mod.PROPERTY
    t0 = time.time()
    shards = list(mod.shards(tier))
    if not shards:
        machinery_error("no shards")
    # VERIF_SEED rotates the order only; the set of shards never changes.
    r = seed % len(shards)
    order = shards[r:] + shards[:r]

    total = Shard(prop)
    nproc = min(NPROC, len(order))
    results = []
    if nproc <= 1 or getattr(mod, "SERIAL", False):
        for d in order:
            results.append(_worker((mod.__name__, d)))
    else:
        ctx = mp.get_context("fork")
        with ctx.Pool(nproc, maxtasksperchild=getattr(mod, "MAXTASKS", None)) as pool:
            for res in pool.imap_unordered(
                _worker, [(mod.__name__, d) for d in order], chunksize=1
            ):
                results.append(res)

    # deterministic merge order irrespective of scheduling / seed
    results.sort(key=lambda r: canon(r[1]))
    known_hits = {}
    fresh = []
    seen_keys = set()
    for status, desc, payload in results:
        if status == "err":
            machinery_error(f"shard {desc!r} crashed:\n{payload}")
        if status == "crash":
            case = {"shard": desc}
            key = case_key(prop, case, "crash")
            if key not in seen_keys:
                seen_keys.add(key)
                total.nfresh += 1
                fresh.append({"kind": "crash-in-package", "case": case, "expected": "the harness operation completes",
                              "observed": {"traceback_tail": payload[-600:]}, "obs": "crash", "key": key})
            continue
        total.states += payload["states"]
        total.transitions += payload["transitions"]
        total.traces += payload["traces"]
        total.evaluations += payload["evaluations"]
        total.nontrivial += payload["nontrivial"]
        total.nfresh += payload["nfresh"]
        for fid, n in payload["known"].items():
            known_hits[fid] = known_hits.get(fid, 0) + n
        for v in payload["violations"]:
            if v["key"] not in seen_keys:
                seen_keys.add(v["key"])
                fresh.append(v)
        for s in payload["samples"]:
            if len(total.samples) < 6:
                total.samples.append(s)
        for k, v in payload["extra"].items():
            if isinstance(v, (int, float)):
                total.extra[k] = total.extra.get(k, 0) + v
            elif isinstance(v, list):
                total.extra[k] = sorted(set(total.extra.get(k, [])) | set(v))[:50]
            else:
                total.extra[k] = v

    findings = findings_for(prop)
    for fid, n in sorted(known_hits.items()):
        print(
            f"KNOWN-FINDING: property={prop} {fid} {findings.open.get(fid, '')} "
            f"({n} listed cases hit)",
            flush=True,
        )

    if os.environ.get("VERIF_DUMP"):
        # developer aid (tools/regen_known.py): every unlisted violating case, one per line
        with open(os.environ["VERIF_DUMP"], "w", encoding="utf8") as f:
            for v in fresh:
                f.write(canon({"key": v["key"], "kind": v["kind"], "case": v["case"],
                               "obs": v["obs"], "observed": v["observed"]}) + "\n")
    exit_code = 0
    fresh.sort(key=lambda v: (len(canon(v["case"])), canon(v["case"])))
    for v in fresh[:25]:
        # replay twice before reporting: identical observations required
        try:
            if "shard" in v["case"] and v["kind"] == "crash-in-package":
                r1 = shard_crash_case(mod, v["case"])
                r2 = shard_crash_case(mod, v["case"])
                if r1:
                    r1["observed"] = r2["observed"] = {"raised": r1["observed"]["raised"]}
            else:
                r1 = mod.check_case(v["case"])
                r2 = mod.check_case(v["case"])
        except BaseException as e:  # noqa: BLE001
            if _raised_inside_package(e):
                r1 = r2 = {"observed": {"replay_raised_inside_package": type(e).__name__}}
            else:
                machinery_error("replay crashed:\n" + traceback.format_exc())
        o1 = canon(r1["observed"]) if r1 else None
        o2 = canon(r2["observed"]) if r2 else None
        if (r1 is None) != (r2 is None):
            # two identical replays of one case disagree: the outcome depends on what the package
            # did before (state kept inside the package) - reported, with both observations
            v["kind"] = v["kind"] + "(history-dependent)"
            v["observed"] = {"during_exploration": v["observed"], "first_replay": o1, "second_replay": o2}
            v["case"] = {"history_of_shard": v.get("shard"), "failing_case": v["case"]}
        elif r1 is None:
            # The case failed during the exploration but passes when run on its own: its outcome
            # depends on what the package did before, i.e. on state hidden in the package (on the
            # unchanged tree no case fails at all, so this branch is never reached there).  Re-run
            # the shard that produced it from its start; the replay file then names the shard.
            again = None
            try:
                sh2 = mod.run_shard(v["shard"]) if v.get("shard") is not None else None
                if sh2 is not None:
                    again = [x for x in sh2.violations]
            except BaseException:  # noqa: BLE001
                again = None
            v["kind"] = v["kind"] + "(history-dependent)"
            v["observed"] = {"during_exploration": v["observed"],
                             "in_isolation": "passes",
                             "shard_rerun_violations": None if again is None else len(again)}
            v["case"] = {"history_of_shard": v.get("shard"), "failing_case": v["case"]}
        path = write_replay(prop, v)
        print(f"VIOLATION property={prop} replay={path}", flush=True)
        print(
            f"  kind={v['kind']} case={canon(v['case'])[:300]} "
            f"expected={canon(v['expected'])[:200]} observed={canon(v['observed'])[:200]}",
            flush=True,
        )
        exit_code = 1
    if total.nfresh > 25:
        print(f"  ... {total.nfresh} unlisted violating cases in total", flush=True)

    wall = time.time() - t0
    bounds = mod.BOUNDS(tier) if hasattr(mod, "BOUNDS") else {}
    cov = {
        "states": total.states,
        "transitions": total.transitions,
        "traces_validated_against_impl": total.traces,
        "evaluations": total.evaluations,
        "distinct_nontrivial": total.nontrivial,
        "rule": mod.RULE,
        "samples": total.samples or [{"note": "no sample recorded"}],
        "exhaustive": True,
        "bounds": bounds,
        "shards": len(shards),
        "known_findings_hit": known_hits,
        "unlisted_violating_cases": total.nfresh,
    }
    cov.update({k: v for k, v in total.extra.items() if k not in cov})
    capped = sum(v for k, v in total.extra.items() if "capped" in k and isinstance(v, int))
    if capped:
        cov["exhaustive"] = False
        cov["explanation"] = (f"{capped} inputs hit an execution cap; everything below the cap and all "
                              "other inputs were enumerated completely")
    ev = {
        "property_id": prop,
        "tier": tier,
        "seed": seed,
        "level": "model_checking",
        "coverage": cov,
        "assumptions": list(getattr(mod, "ASSUMPTIONS", [])),
        "wall_s": round(wall, 3),
        "violations": total.nfresh,
    }
    write_evidence(prop, ev)
    print(
        f"{prop} {tier}: states={total.states} transitions={total.transitions} "
        f"traces={total.traces} evaluations={total.evaluations} "
        f"nontrivial={total.nontrivial} violations={total.nfresh} "
        f"known={sum(known_hits.values())} wall={wall:.1f}s",
        flush=True,
    )
    return exit_code


def write_replay(prop, v):
    d = os.path.join(VERIF, "replays", prop)
    os.makedirs(d, exist_ok=True)
    path = os.path.join(d, v["key"] + ".json")
    with open(path, "w", encoding="utf8") as f:
        json.dump(
            {
                "property": prop,
                "kind": v["kind"],
                "case": v["case"],
                "expected": v["expected"],
                "observed": v["observed"],
                "obs": v["obs"],
                "key": v["key"],
            },
            f,
            indent=1,
            ensure_ascii=True,
        )
    return path


def write_evidence(prop, ev):
    # evidence/ only ever describes runs against /repo itself; runs against a scratch copy
    # (VERIF_REPO=..., used for mutation demos) write to an ignored directory instead
    if os.path.realpath(REPO) == "/repo":
        d = os.path.join(VERIF, "evidence")
    else:
        d = os.path.join(VERIF, ".scratch", "evidence")
        ev = dict(ev, repo=REPO)
    os.makedirs(d, exist_ok=True)
    path = os.path.join(d, prop + ".json")
    tmp = path + ".tmp"
    with open(tmp, "w", encoding="utf8") as f:
        json.dump(ev, f, indent=1, ensure_ascii=True, default=str)
    os.replace(tmp, path)
    # validate against the schema with the tooling venv (has jsonschema)
    code = (
        "import json,sys,jsonschema;"
        "s=json.load(open('/root/.vp/EVIDENCE.schema.json'));"
        "jsonschema.validate(json.load(open(sys.argv[1])),s)"
    )
    if os.path.exists("/root/.vp/EVIDENCE.schema.json"):
        try:
            p = subprocess.run(
                ["python3-vt", "-c", code, path], capture_output=True, text=True, timeout=60
            )
            if p.returncode != 0:
                machinery_error("evidence does not validate:\n" + p.stderr[-2000:])
        except FileNotFoundError:
            pass


def replay(mod, path):
    rec = json.load(open(path, encoding="utf8"))
    if "history_of_shard" in rec["case"]:
        sh = mod.run_shard(rec["case"]["history_of_shard"])
        v = sh.violations[0] if sh.violations else None
    elif rec.get("kind") == "crash-in-package" and "shard" in rec["case"]:
        v = shard_crash_case(mod, rec["case"])
    else:
        v = mod.check_case(rec["case"])
    if v is None:
        print(f"replay {path}: case passes (no violation)")
        return 0
    print(f"VIOLATION property={mod.PROPERTY} replay={path}")
    print(f"  kind={v['kind']} expected={canon(v['expected'])[:300]} observed={canon(v['observed'])[:300]}")
    return 1
