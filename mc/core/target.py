"""Binding to the package under test: always the *current* sources of
${VERIF_REPO:-/repo}, never an installed copy."""
import importlib
import os
import sys
import traceback

REPO = os.environ.get("VERIF_REPO", "/repo")


def bind():
    """Import jsonpath_rfc9535 from REPO. Returns None or the traceback text."""
    if REPO not in sys.path[:1]:
        sys.path.insert(0, REPO)
    try:
        mod = importlib.import_module("jsonpath_rfc9535")
        # make sure every submodule the checks touch is importable too
        for sub in ("cli", "lex", "parse", "segments", "selectors", "filter_expressions",
                    "function_extensions", "node", "query", "tokens", "exceptions"):
            importlib.import_module("jsonpath_rfc9535." + sub)
    except BaseException:  # noqa: BLE001
        return traceback.format_exc()
    here = os.path.realpath(os.path.dirname(mod.__file__))
    want = os.path.realpath(os.path.join(REPO, "jsonpath_rfc9535"))
    if here != want:
        return f"imported {here}, expected {want}"
    return None


def purge():
    """Drop every module of the package (fresh import for history checks)."""
    for name in [n for n in sys.modules if n == "jsonpath_rfc9535" or n.startswith("jsonpath_rfc9535.")]:
        del sys.modules[name]


def fresh():
    purge()
    return importlib.import_module("jsonpath_rfc9535")
