"""Differential oracle: the real find() against R2 (parse) + R3 (evaluate)."""
from mc.core import impl
from mc.core.explore import violation
from mc.ref import eval as ev
from mc.ref import typing as rt

_AST = {}


def ast_of(query, registry=None):
    key = query if registry is None else (query, id(registry))
    v = _AST.get(key)
    if v is None:
        v = rt.classify(query) if registry is None else rt.classify(query, registry=registry)
        if len(_AST) < 200000:
            _AST[key] = v
    return v


def compare_nodes(nodes, expected):
    if len(nodes) != len(expected):
        return "length"
    for n, (loc, val) in zip(nodes, expected):
        if n.location != loc:
            return "location"
        if n.value is not val:
            return "identity"
    return None


def diff(query, doc, env=None, refenv=ev.DEFAULT, compiled=None):
    """-> None | (kind, expected_obs, observed_obs).  query must be valid for R2."""
    v = ast_of(query)
    if v.cls != "valid":
        raise AssertionError(f"generator produced a non-valid query {query!r}: {v}")
    expected = ev.evaluate(v.ast, doc, refenv)
    try:
        if compiled is not None:
            nodes = compiled.find(doc)
        else:
            nodes = (env or impl.jp).find(query, doc)
    except Exception as e:  # noqa: BLE001
        return ("raised", [[list(l), impl.jsonable(x)] for l, x in expected],
                {"raised": type(e).__name__, "msg": str(e)[:200]})
    why = compare_nodes(nodes, expected)
    if why:
        return ("wrong-nodelist", [[list(l), impl.jsonable(x)] for l, x in expected],
                {"nodes": impl.nodes_obs(nodes), "why": why})
    return None


def check_query_doc(case):
    """generic check_case for cases {"query":..., "doc": jsonable}"""
    if "doc" not in case:
        r = impl.run(impl.jp.compile, case["query"])
        if r[0] == "ok":
            return None
        return violation("compile-raised", case, "compiles", {"raised": r[1], "msg": r[3]}, "wrong")
    doc = impl.unjsonable(case["doc"])
    d = diff(case["query"], doc)
    if d is None:
        return None
    return violation(d[0], case, d[1], d[2], "wrong")


def per_child_cases(query, doc, prefix_query=None):
    """The find of `query` on an array/object `doc` disagreed: split into one case per
    child so that the violation (and its key) names the specific child."""
    out = []
    if isinstance(doc, list):
        for child in doc:
            out.append({"query": query, "doc": impl.jsonable([child])})
    elif isinstance(doc, dict):
        for k, child in doc.items():
            out.append({"query": query, "doc": impl.jsonable({k: child})})
    return out
