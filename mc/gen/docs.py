"""Document generators: all JSON trees up to a node bound, and the KINDS table."""
import functools

LEAVES = (1, "a", None)
NAMES = ("a", "b")
KEYSEQS = ((), ("a",), ("b",), ("a", "b"), ("b", "a"))


@functools.lru_cache(maxsize=None)
def forests(k, n):
    """all k-tuples of trees with n nodes in total"""
    if k == 0:
        return ((),) if n == 0 else ()
    out = []
    for first in range(1, n - (k - 1) + 1):
        for t in trees(first):
            for rest in forests(k - 1, n - first):
                out.append((t,) + rest)
    return tuple(out)


@functools.lru_cache(maxsize=None)
def trees(n):
    """all trees with exactly n nodes, as nested tuples:
    ("leaf", v) | ("list", children) | ("dict", keys, children)"""
    if n <= 0:
        return ()
    out = []
    if n == 1:
        out.extend(("leaf", v) for v in LEAVES)
    # lists with k children
    for k in range(0, n):
        for f in forests(k, n - 1):
            out.append(("list", f))
    for keys in KEYSEQS:
        for f in forests(len(keys), n - 1):
            out.append(("dict", keys, f))
    return tuple(out)


def build(t):
    """fresh Python value from a tree description"""
    if t[0] == "leaf":
        return t[1]
    if t[0] == "list":
        return [build(c) for c in t[1]]
    return {k: build(c) for k, c in zip(t[1], t[2])}


def docs(nmax):
    """all JSON trees with at most nmax nodes (fresh objects)"""
    out = []
    for n in range(1, nmax + 1):
        out.extend(build(t) for t in trees(n))
    return out


# every JSON kind, including the falsy and confusable ones
def kinds():
    return [
        0, 1, -1, 2, 1.0, 0.0, -0.0, 2.5, 2**53 - 1, -(2**53) + 1, 1e300,
        2**53, 2**53 + 1, float(2**53), 10**30, 1e30,
        # integers beyond the range of a double (json.loads returns them as exact ints)
        10**400, -(10**400), 2**1024,
        "", "a", "b", "ab", "1", "\U0001F600", "￿", "A",
        True, False, None,
        [], [1], [True], [1.0], [0], [False], [None], [[1]], [[True]], [1, 2], [2, 1], ["a"],
        {}, {"k": 1}, {"k": True}, {"k": 1.0}, {"k": [1]}, {"k": [True]}, {"k": None},
        {"k": 1, "l": 2}, {"l": 2, "k": 1}, {"a": 1}, {"a": 0}, {"a": "a"},
    ]
