"""String enumerators for the language checks: token strings, single-edit
neighbours of a valid corpus, prefixes."""
import json
import os

TOKENS = [
    "$", "@", ".", "..", "[", "]", "(", ")", ",", ":", "?", "!", "*", "==", "<", "&&", "||",
    "a", "'a'", '"b"', "1", "-1", "0", "-0", "01", "1.5", "1e1", "true", "null",
    "count(", "length(", " ", "\n",
]

EDIT_ALPHABET = list("$@.[]()?!*,:'\"\\=<>&|-+_aezAE019 \n\t") + ["\u000b", " ", " ", "é", "\U0001F600",
                 # characters str.isdigit() / int() accept that are not ABNF DIGITs: superscript two (No),
                 # ARABIC-INDIC DIGIT THREE (Nd), CIRCLED DIGIT ONE (No)
                 "\u00b2", "\u0663", "\u2460",
                 # code points without a Unicode name: a C1 control and a private-use character
                 "\u0085", "\ue000",
                 # NUL: a popular end-of-input sentinel
                 "\x00"]

FIX = os.path.join(os.path.dirname(os.path.dirname(os.path.dirname(os.path.abspath(__file__)))), "fixtures")

OWN_CORPUS = [
    # a negation whose parenthesised operand is itself a negation (valid; `!!` is not)
    "$[?!(!@.a)]", "$[?!(!(@.a == 1))]", "$[?!((!@.a))]", "$[?@.x || !(!match(@.a, 'b'))]", "$[?!(@.b && !@.a)]",
    "$[?!(!(!@.a))]", "$[?count(@[?!(!@.b)]) > 1]", "$[?((@.a))]", "$[?(!@.a)]", "$[?! (! @.a)]",

    "$", "$.a", "$..a", "$.*", "$..*", "$[*]", "$..[*]", "$['a']", '$["a"]', "$[0]", "$[-1]",
    "$[1:2]", "$[1:2:3]", "$[::]", "$[:]", "$[::-1]", "$[-3:-1:2]", "$[ 1 : 2 : 3 ]", "$['a','b']",
    "$[0,1]", "$['a',0,*,1:2]", "$.a.b", "$.a['b'][0]", "$ .a", "$.a [0]", "$..['a','b']", "$.a..b",
    "$._a1", "$.é", "$['\\u0041']", "$['\\n\\t\\\\\\/\\b\\f\\r']", "$['\\'']", '$["\\""]', "$['\"']",
    "$['\\uD83D\\uDE00']", "$['']", "$[?@]", "$[?@.a]", "$[?!@.a]", "$[?@.a && @.b]", "$[?@.a || @.b]",
    "$[?@.a && @.b || @.c]", "$[?(@.a || @.b) && @.c]", "$[?!(@.a && @.b)]", "$[?@.a == 1]",
    "$[?@.a != 'x']", "$[?@.a < 1.5]", "$[?@.a <= -1]", "$[?@.a > 1e1]", "$[?@.a >= 1E-1]",
    "$[?1 == @.a]", "$[?@.a == @.b]", "$[?$.a == @.b]", "$[?@ == null]", "$[?@ == true]",
    "$[?@ == false]", "$[?@['a'] == \"b\"]", "$[?@[0] == -0]", "$[?@.a.b[1] == 1.0e+2]",
    "$[?count(@.*) == 1]", "$[?length(@.a) >= 2]", "$[?match(@.a, 'a.*')]", "$[?search(@.a, \"b\")]",
    "$[?value(@..a) == 1]", "$[?!match(@, 'a')]", "$[?length(value(@.a)) == 1]",
    "$[?count(@[?@.a]) > 0]", "$[?@[?@.a]]", "$[?@.a, ?@.b]", "$[?@.a,1]", "$[? @.a ]",
    "$[?@ . a]".replace(" . ", " .") if False else "$[?@ .a]", "$[?$[0]]", "$[?$]", "$[?@..a]", "$[?@[*]]",
    "$[?@[1:2]]", "$[?(@.a)]", "$[?((@.a))]", "$[?!(@.a == 1)]", "$[?(@.a == 1) && (@.b == 2)]",
    "$[?@.a==1&&@.b==2||!@.c]", "$[?match(@.a,'a')&&search(@.b,'b')]", "$[? count( @.* ) == 1 ]",
    "$[?1==1]", "$[?'a'=='a']", "$[?null==null]", "$[?-1<0]", "$[?0.5<1]", "$.a[?@.b][?@.c]",
    "$..[?@.a]", "$[?count(@[?@.c, ?@.d]) > 0]", "$[?count(@[?@.c,1]) == 1]", "$[?value(@[?match(@.a,'b'), 0]) == 1, ?@.b]",
    "$[?count(@[?count(@[?@.a,1]) > 1, 2]) > 0]", "$[?@[?@.c, ?@.d]]", "$[?length(@['a','b'][0]) == 1]".replace("['a','b'][0]", "['a'][0]"),
    "$[?count(@['a','b']) == 2]", "$[?match(@.a, @.b)]", "$[?search(@, $.p)]", "$[?match(@, @)]", "$[?search(@.s, @.p) || match($, @)]",
    "$[?length(@.a, !@.b) == 1]".replace(", !@.b", ""), "$[?match(@.a, 'x') && !search(@.b, (@.c))]".replace("(@.c)", "@.c"), "$[?count(@[0,1:2,*]) > 2 && match(@.a, 'x')]", "$[?@.a\n==\n1]", "$[?@.a==\t1]", "$\n.a", "$\r\n[\n0\n]",
]


def corpus():
    out = list(OWN_CORPUS)
    try:
        out += [c["query"] for c in json.load(open(os.path.join(FIX, "examples.json"), encoding="utf8"))]
        out += [c["query"] for c in json.load(open(os.path.join(FIX, "parse.json"), encoding="utf8"))]
        out += [c["query"] for c in json.load(open(os.path.join(FIX, "welltyped.json"), encoding="utf8"))]
    except OSError:
        pass
    seen = set()
    res = []
    for q in out:
        if q not in seen:
            seen.add(q)
            res.append(q)
    return res


def token_strings(prefix_tokens, depth):
    """all strings prefix + T^<=depth (as token tuples joined)"""
    base = "".join(prefix_tokens)
    yield base
    if depth == 0:
        return
    for t in TOKENS:
        yield from token_strings(prefix_tokens + (t,), depth - 1)


def edits(q):
    """every single-character deletion, insertion, replacement, transposition"""
    n = len(q)
    seen = {q}
    for i in range(n):
        s = q[:i] + q[i + 1:]
        if s not in seen:
            seen.add(s)
            yield s
    for i in range(n + 1):
        for c in EDIT_ALPHABET:
            s = q[:i] + c + q[i:]
            if s not in seen:
                seen.add(s)
                yield s
    for i in range(n):
        for c in EDIT_ALPHABET:
            s = q[:i] + c + q[i + 1:]
            if s not in seen:
                seen.add(s)
                yield s
    for i in range(n - 1):
        s = q[:i] + q[i + 1] + q[i] + q[i + 2:]
        if s not in seen:
            seen.add(s)
            yield s


def prefixes(q):
    for i in range(len(q)):
        yield q[:i]
