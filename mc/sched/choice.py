"""Enumerating stand-in for the stdlib `random` module (stateless DFS over the tree
of random choices, CHESS/loom style).

    with controlled(modules) as ctl:
        for trace in ctl.explore(run):     # run() is executed once per leaf
            ...

Every call of shuffle / choice / sample / ... asks the Chooser for an answer in
range(n).  One execution replays a prefix of answers and answers 0 afterwards; the
explorer then branches on every later point.  A replayed prefix that meets a different
arity is a hard error (unowned nondeterminism).
"""
import contextlib


class Divergence(Exception):
    pass


class Chooser:
    def __init__(self):
        self.prefix = []
        self.trace = []  # (answer, arity)

    def start(self, prefix):
        self.prefix = list(prefix)
        self.trace = []

    def choose(self, n):
        if n <= 0:
            raise ValueError("empty choice")
        i = len(self.trace)
        if i < len(self.prefix):
            c = self.prefix[i]
            if c >= n:
                raise Divergence(f"replayed answer {c} at point {i} but arity is {n}")
        else:
            c = 0
        self.trace.append((c, n))
        return c


class FakeRandom:
    """The subset of the `random` API, driven by a Chooser."""

    def __init__(self, chooser):
        self._c = chooser

    def shuffle(self, x):
        # selection: position i receives one of the remaining elements
        n = len(x)
        for i in range(n - 1):
            j = i + self._c.choose(n - i)
            x[i], x[j] = x[j], x[i]

    def choice(self, seq):
        return seq[self._c.choose(len(seq))]

    def sample(self, population, k, counts=None):  # noqa: ARG002
        import collections.abc
        if not isinstance(population, collections.abc.Sequence):
            # random.sample() of the interpreter in use (3.11+) refuses sets, dict views, iterators
            raise TypeError("Population must be a sequence.  For dicts or sets, use sorted(d).")
        if not 0 <= k <= len(population):
            raise ValueError("Sample larger than population or is negative")
        pool = list(population)
        out = []
        for _ in range(k):
            # distinct outcomes up to object identity: identical objects are
            # indistinguishable to the caller
            distinct = []
            seen = set()
            for idx, obj in enumerate(pool):
                if id(obj) not in seen:
                    seen.add(id(obj))
                    distinct.append(idx)
            pick = distinct[self._c.choose(len(distinct))]
            out.append(pool.pop(pick))
        return out

    def random(self):
        return [0.0, 0.5][self._c.choose(2)]

    def randint(self, a, b):
        return a + self._c.choose(b - a + 1)

    def randrange(self, start, stop=None, step=1):
        if stop is None:
            start, stop = 0, start
        vals = range(start, stop, step)
        return vals[self._c.choose(len(vals))]

    def getrandbits(self, k):
        return self._c.choose(2 ** k)

    def choices(self, population, weights=None, cum_weights=None, k=1):  # noqa: ARG002
        return [population[self._c.choose(len(population))] for _ in range(k)]

    def uniform(self, a, b):
        return [a, b][self._c.choose(2)]


class Controller:
    def __init__(self, chooser):
        self.chooser = chooser
        self.executions = 0
        self.points = 0

    def explore(self, run, max_executions=None, deviation_bound=None):
        """yield (trace, result) for every leaf of the choice tree (DFS).
        deviation_bound: only leaves with at most that many non-zero answers."""
        stack = [[]]
        while stack:
            prefix = stack.pop()
            self.chooser.start(prefix)
            result = run()
            trace = list(self.chooser.trace)
            self.executions += 1
            self.points += len(trace)
            yield trace, result
            if max_executions is not None and self.executions >= max_executions:
                return
            answers = [a for a, _ in trace]
            dev = sum(1 for a in prefix if a)
            for i in range(len(trace) - 1, len(prefix) - 1, -1):
                if deviation_bound is not None and dev + 1 > deviation_bound:
                    break
                for alt in range(trace[i][1] - 1, 0, -1):
                    stack.append(answers[:i] + [alt])


_RANDOM_FUNCS = ("shuffle", "choice", "sample", "random", "randint", "randrange", "getrandbits", "choices",
                 "uniform")


@contextlib.contextmanager
def controlled(modules=None, package="jsonpath_rfc9535"):
    """Rebind every use of the stdlib `random` module inside the package under test to an
    enumerating fake: the module object bound to any global name of any loaded package module
    (`import random`, `import random as r`) and any stdlib random function imported by name
    (`from random import shuffle`).  `modules` is accepted for backward compatibility."""
    import random as _stdlib
    import sys as _sys

    chooser = Chooser()
    fake = FakeRandom(chooser)
    by_func = {}
    for fn in _RANDOM_FUNCS:
        by_func[id(getattr(_stdlib, fn))] = getattr(fake, fn)
    saved = []
    mods = [m for n, m in list(_sys.modules.items())
            if m is not None and (n == package or n.startswith(package + "."))]
    for m in list(modules or []):
        if m not in mods:
            mods.append(m)
    for m in mods:
        for name, val in list(vars(m).items()):
            if val is _stdlib:
                saved.append((m, name, val))
                setattr(m, name, fake)
            elif id(val) in by_func and callable(val) and getattr(val, "__self__", None) is getattr(_stdlib, "_inst", None):
                saved.append((m, name, val))
                setattr(m, name, by_func[id(val)])
    try:
        yield Controller(chooser)
    finally:
        for m, name, old in saved:
            setattr(m, name, old)
