"""Cooperative thread scheduler for stateless exploration of real Python threads.

Every worker thread runs under sys.settrace; each 'line' event in a frame whose code
belongs to the package under test is a *scheduling point*.  Exactly one thread holds
the baton at any time (per-thread semaphores), so an execution is fully determined by
the schedule: the list of preemptions  (thread, local step) -> switch to other thread.
Iterative preemption bounding: explore all schedules with 0, 1, ... preemptions
(CHESS).  threading.Lock / RLock created while `coop_locks()` is active are
cooperative: a blocked acquire hands the baton over instead of blocking the OS
thread, so a lock added to the library cannot hang the explorer; if every unfinished
thread is blocked the execution is reported as a deadlock.
"""
import sys
import threading
import _thread

_REAL_LOCK = _thread.allocate_lock


class Deadlock(Exception):
    pass


class Hang(Exception):
    pass


class Execution:
    """One controlled execution of n thread bodies under a given schedule."""

    def __init__(self, bodies, prefix_dir, first=0, preemptions=(), opcodes=False):
        self.opcodes = opcodes
        self.bodies = bodies
        self.n = len(bodies)
        self.prefix = prefix_dir
        self.first = first
        # preemptions: dict (tid, local_step) -> tid to switch to
        self.preempt = dict(preemptions)
        self.sems = [threading.Semaphore(0) for _ in bodies]
        self.done = [False] * self.n
        self.blocked = [False] * self.n
        self.steps = [0] * self.n
        self.results = [None] * self.n
        self.errors = [None] * self.n
        self.finished = threading.Semaphore(0)
        self.current = None
        self.switches = 0
        self.failure = None

    # ---- tracing
    def _tracer(self, tid):
        prefix = self.prefix

        opcodes = self.opcodes

        def local(frame, event, arg):  # noqa: ARG001
            if event == ("opcode" if opcodes else "line"):
                self.point(tid)
            return local

        def glob(frame, event, arg):  # noqa: ARG001
            if frame.f_code.co_filename.startswith(prefix):
                if opcodes:
                    # bytecode granularity: a scheduling point before every instruction, so a thread can
                    # also be preempted between the load and the store of `x.n += 1`
                    frame.f_trace_opcodes = True
                    frame.f_trace_lines = False
                return local
            return None

        return glob

    def point(self, tid):
        s = self.steps[tid]
        self.steps[tid] = s + 1
        to = self.preempt.get((tid, s))
        if to is not None and not self.done[to]:
            self.switch(tid, to)

    def switch(self, frm, to):
        self.switches += 1
        self.current = to
        self.sems[to].release()
        self.sems[frm].acquire()

    def runnable_other(self, tid):
        for k in range(1, self.n + 1):
            t = (tid + k) % self.n
            if t != tid and not self.done[t] and not self.blocked[t]:
                return t
        return None

    def yield_blocked(self, tid):
        """called by a cooperative lock that cannot be acquired"""
        self.blocked[tid] = True
        to = self.runnable_other(tid)
        if to is None:
            self.failure = "deadlock"
            raise Deadlock()
        self.switch(tid, to)
        self.blocked[tid] = False

    def _run_thread(self, tid):
        _CURRENT.exe = self
        _CURRENT.tid = tid
        self.sems[tid].acquire()
        sys.settrace(self._tracer(tid))
        try:
            self.results[tid] = self.bodies[tid]()
        except Deadlock:
            self.errors[tid] = "Deadlock"
        except BaseException as e:  # noqa: BLE001
            self.errors[tid] = type(e).__name__ + ": " + str(e)[:100]
        finally:
            sys.settrace(None)
            self.done[tid] = True
            _CURRENT.exe = None
            # hand the baton to an unfinished thread (blocked ones get a chance to retry)
            nxt = None
            for k in range(1, self.n + 1):
                t = (tid + k) % self.n
                if not self.done[t]:
                    nxt = t
                    break
            if nxt is None:
                self.finished.release()
            else:
                self.current = nxt
                self.sems[nxt].release()

    def run(self, timeout=20.0):
        # the baton hand-over (semaphore release + acquire) otherwise waits for the interpreter's
        # default 5 ms GIL switch interval on every switch; which thread runs is decided by the
        # semaphores alone, so the interval changes the cost of an execution, not its schedule
        old = sys.getswitchinterval()
        sys.setswitchinterval(1e-4)
        try:
            return self._run(timeout)
        finally:
            sys.setswitchinterval(old)

    def _run(self, timeout):
        threads = [threading.Thread(target=self._run_thread, args=(i,), daemon=True) for i in range(self.n)]
        for t in threads:
            t.start()
        self.current = self.first
        self.sems[self.first].release()
        if not self.finished.acquire(timeout=timeout):
            self.failure = self.failure or "hang"
            raise Hang(f"no progress within {timeout}s (steps={self.steps})")
        for t in threads:
            t.join(timeout=5)
        return self


_CURRENT = threading.local()


class CoopLock:
    """threading.Lock replacement that yields the baton instead of blocking."""

    def __init__(self):
        self._l = _REAL_LOCK()

    def acquire(self, blocking=True, timeout=-1):
        exe = getattr(_CURRENT, "exe", None)
        if exe is None or not blocking:
            return self._l.acquire(blocking, timeout) if blocking else self._l.acquire(False)
        while not self._l.acquire(False):
            exe.yield_blocked(_CURRENT.tid)
        return True

    def release(self):
        self._l.release()

    def locked(self):
        return self._l.locked()

    __enter__ = acquire

    def __exit__(self, *a):
        self.release()


class CoopRLock:
    def __init__(self):
        self._l = CoopLock()
        self._owner = None
        self._count = 0

    def acquire(self, blocking=True, timeout=-1):
        me = threading.get_ident()
        if self._owner == me:
            self._count += 1
            return True
        ok = self._l.acquire(blocking, timeout)
        if ok:
            self._owner = me
            self._count = 1
        return ok

    def release(self):
        if self._owner != threading.get_ident():
            raise RuntimeError("cannot release un-acquired lock")
        self._count -= 1
        if self._count == 0:
            self._owner = None
            self._l.release()

    __enter__ = acquire

    def __exit__(self, *a):
        self.release()


class coop_locks:
    """context manager: threading.Lock/RLock become cooperative for code importing them now"""

    def __enter__(self):
        self.saved = (threading.Lock, threading.RLock)
        threading.Lock = CoopLock
        threading.RLock = CoopRLock
        return self

    def __exit__(self, *a):
        threading.Lock, threading.RLock = self.saved


def explore(make_bodies, prefix_dir, bound, check, max_executions=None, keep=None, opcodes=False):
    """Iterative preemption bounding over 2+ threads.

    make_bodies() -> list of fresh thread bodies (fresh iterators etc. per execution)
    check(execution) -> None | description of the violation
    keep(first, preemptions) -> bool, optional: restricts the explored schedules with >= 1
    preemption to a slice (decided on the FIRST preemption, so a slice is closed under extension);
    the slices of a partition together cover exactly the schedules of the unsliced exploration
    yields (schedule description, violation) for violating executions; returns counters via dict
    """
    stats = {"executions": 0, "points": 0, "bound_completed": -1}
    n = len(make_bodies())

    def run(first, preemptions):
        exe = Execution(make_bodies(), prefix_dir, first, preemptions, opcodes=opcodes)
        exe.run()
        stats["executions"] += 1
        stats["points"] += sum(exe.steps)
        return exe

    if opcodes:
        # the interpreter switches instruction events on lazily: frames of the very first traced
        # execution of a process are not all instrumented yet, so one execution is run and discarded
        Execution(make_bodies(), prefix_dir, 0, (), opcodes=True).run()
    found = []
    seen = set()
    frontier = [(first, ()) for first in range(n)]  # bound 0
    for b in range(bound + 1):
        nxt = []
        if max_executions is not None:
            remaining = max_executions - stats["executions"]
            if len(frontier) > max(remaining, 0):
                # capped: spread the budget evenly over the (deterministically ordered) frontier
                # instead of spending it on the earliest preemption points; reported as capped
                stats["capped"] = True
                stride = len(frontier) // max(remaining, 1) + 1
                frontier = frontier[::stride]
        for first, pre in frontier:
            if max_executions is not None and stats["executions"] >= max_executions:
                stats["capped"] = True
                break
            try:
                exe = run(first, pre)
                bad = check(exe)
            except Hang as h:
                bad = str(h)
                exe = None
            if bad:
                found.append(({"first": first, "preemptions": [[t, s, to] for (t, s), to in pre]}, bad))
                if len(found) >= 3:
                    stats["bound_completed"] = b - 1
                    return found, stats
            if exe is None or b == bound:
                continue
            if max_executions is not None and stats["executions"] >= max_executions:
                continue
            # extend: one more preemption strictly after the last one of this schedule
            last = {}
            for (t, s), _ in pre:
                last[t] = max(last.get(t, -1), s)
            for t in range(n):
                for s in range(last.get(t, -1) + 1, exe.steps[t]):
                    if (t, s) in dict(pre):
                        continue
                    for to in range(n):
                        if to != t:
                            cand = pre + (((t, s), to),)
                            key = (first, frozenset(cand))
                            if key not in seen and (keep is None or keep(first, cand)):
                                seen.add(key)
                                nxt.append((first, cand))
        if not stats.get("capped"):
            stats["bound_completed"] = b
        frontier = nxt
    return found, stats
