"""C10 — length/count/value and the function-call type conversions.

Part 1 (built-ins): length / count / value over every JSON kind reached through every
argument expression (literal, `@` on container and scalar children, `@.a`, `$`,
`$.a`, non-singular queries, nested calls), compared with R3.
Part 2 (conversions): probe functions for every signature {V,L,N}^n -> {V,L,N}, n<=2,
are registered on an environment; each records the Python objects it receives and
returns a result computed from them.  The same functions exist in the reference
model.  For every argument shape per parameter type the recorded arguments must be:
ValueType -> the literal / the single selected value / NOTHING; NodesType -> a
JSONPathNodeList with exactly the reference nodes; LogicalType -> exactly True/False;
and the filter result must equal the reference result (result used per declared type).
"""
import itertools

from mc.core import diff, impl
from mc.core.explore import Shard, violation
from mc.gen import docs as gdocs
from mc.ref import eval as ev
from mc.ref import typing as rt

PROPERTY = "C10"
RULE = (
    "built-ins: 60 query shapes over length/count/value x children of every JSON kind (array "
    "and object documents); conversions: 39 probe signatures x argument shapes per parameter "
    "type (10 V, 8 N, 12 L) x placements; the multiset of (function, received arguments) recorded "
    "by the real probes must equal the reference model's, and the selected nodes must agree; "
    "distinct by construction; non-trivial = calls actually made (recorded)"
)
ASSUMPTIONS = [
    "oracle = R3 function-call semantics (RFC 9535 2.4.1-2.4.3)",
    "evaluation order of sub-expressions is not compared (multisets per query)",
]
T = ("V", "L", "N")
SHAPES = {
    "V": ["1", "'s'", "null", "@", "@.a", "$.a", "@[0]", "fv_v(@.a)", "f_v()", "length(@)"],
    "N": ["@", "@.*", "@..a", "$", "$.a", "@.a", "fn_n(@.*)", "@[?@.a]"],
    "L": ["@", "@.a", "@.*", "@.a == 1", "@.a && @.b", "fl_l(@.a)", "fn_n(@.*)", "match(@.a, 'a')", "!@.a", "(@.a)",
          "!(@.a == 1)", "(@.a || @.b)"],
}
CHILDREN = [
    0, 1, "", "a", None, False, True, 1.5, [], {}, {"a": 1}, {"a": 0}, {"a": None}, {"a": False},
    {"a": "a", "b": "b"}, {"a": [1, 2], "b": 0}, {"b": 1}, {"a": {"a": 1}}, [1], [0, {"a": 1}], [[1]], "abc",
    "\U0001F600\U0001F600", {"a": "\U0001F600"}, {"n": 7, "e": []}, {"a": 1, "b": []}, {"a": [], "b": {}}, {"a": None, "b": []},
]


class _L(list):
    """an array as some JSON / YAML / TOML readers return it: a list subclass"""


class _S(str):
    """a string subclass"""


import collections as _collections

# values of the JSON kinds that are instances of subclasses of dict / list / str
# several nodes of which the second / last is null
CHILDREN += [{"a": 1, "b": None}, [None, None], [1, None], [None, 1], {"a": None, "b": None, "c": 2}]
CHILDREN += [_collections.OrderedDict([("a", 1), ("b", [])]), _collections.OrderedDict(), _L([1, {"a": 1}]), _L(), _S("abc"),
             {"a": _S("xy"), "b": _L([0])}, {"a": _collections.OrderedDict([("k", 1)])}]


def sigs():
    out = {}
    for n in range(3):
        for params in itertools.product(T, repeat=n):
            for ret in T:
                out["f" + "".join(p.lower() for p in params) + "_" + ret.lower()] = (tuple(params), ret)
    return out


SIGS = sigs()
REGISTRY = dict(rt.BUILTINS)
REGISTRY.update(SIGS)

RECORD = []      # filled by the real probes
REF_RECORD = []  # filled by the reference probes
_ENV = {}


def _result(params, ret, args, nothing, empty_nodes, is_nodes):
    """shared semantic definition of every probe: result computed from the arguments"""
    first = args[0] if args else None
    fp = params[0] if params else None
    if ret == "V":
        if fp == "V":
            return first
        if fp == "N":
            return len(first)
        if fp == "L":
            return 1 if first is True else 0
        return 1
    if ret == "L":
        if fp == "V":
            return first is not nothing
        if fp == "N":
            return len(first) > 0
        if fp == "L":
            return first is True
        return True
    if fp == "N" and is_nodes(first):
        return first
    return empty_nodes()


def impl_env():
    if "env" in _ENV:
        return _ENV["env"]
    from jsonpath_rfc9535 import NOTHING, JSONPathEnvironment, JSONPathNodeList
    from jsonpath_rfc9535.function_extensions import ExpressionType, FilterFunction

    tmap = {"V": ExpressionType.VALUE, "L": ExpressionType.LOGICAL, "N": ExpressionType.NODES}

    def describe(pt, a):
        if pt == "V":
            if a is NOTHING:
                return ["V", "NOTHING"]
            if isinstance(a, JSONPathNodeList):
                return ["V!", "nodelist", len(a)]
            return ["V", impl.jsonable(a)]
        if pt == "N":
            if isinstance(a, JSONPathNodeList):
                return ["N", [impl.jsonable(n.value) for n in a]]
            return ["N!", type(a).__name__]
        if a is True or a is False:
            return ["L", a]
        return ["L!", type(a).__name__]

    def make(name, params, ret):
        class Probe(FilterFunction):
            arg_types = [tmap[p] for p in params]
            return_type = tmap[ret]

            def __call__(self, *args):
                RECORD.append([name] + [describe(p, a) for p, a in zip(params, args)])
                return _result(params, ret, args, NOTHING, JSONPathNodeList,
                               lambda x: isinstance(x, JSONPathNodeList))

        return Probe()

    env = JSONPathEnvironment()
    for name, (params, ret) in SIGS.items():
        env.function_extensions[name] = make(name, params, ret)
    _ENV["env"] = env
    return env


def ref_env():
    if "ref" in _ENV:
        return _ENV["ref"]
    sigs_ = dict(REGISTRY)
    impls = dict(ev.BUILTIN_IMPL)

    def describe(pt, a):
        if pt == "V":
            return ["V", "NOTHING"] if a is ev.NOTHING else ["V", impl.jsonable(a)]
        if pt == "N":
            return ["N", [impl.jsonable(v) for _, v in a]]
        return ["L", a]

    def make(name, params, ret):
        def f(*args):
            REF_RECORD.append([name] + [describe(p, a) for p, a in zip(params, args)])
            return _result(params, ret, args, ev.NOTHING, list, lambda x: isinstance(x, list))
        return f

    for name, (params, ret) in SIGS.items():
        impls[name] = make(name, params, ret)
    _ENV["ref"] = ev.Env(sigs_, impls)
    return _ENV["ref"]


def BOUNDS(tier):
    return {"signatures": len(SIGS), "shapes": {k: len(v) for k, v in SHAPES.items()},
            "children": len(CHILDREN), "builtin_query_shapes": len(builtin_queries())}


def builtin_queries():
    out = []
    for n in range(0, 5):
        out += [f"$[?length(@) == {n}]", f"$[?count(@.*) == {n}]", f"$[?count(@..*) == {n}]", f"$[?count(@[?@]) == {n}]"]
    out += [
        "$[?length(@.a) == 1]", "$[?length(@) == length(@)]", "$[?length(@) > 0]", "$[?length(@) >= 0]",
        "$[?length('abc') == 3]", "$[?length(\"\U0001F600\") == 1]", "$[?length('\\uD83D\\uDE00a') == 2]",
        "$[?length(1) == 1]", "$[?length(null) == length(true)]", "$[?length(1) == length(@.zz)]",
        "$[?length($) == 24]", "$[?length($) == 25]", "$[?length($.a) == 1]", "$[?length($[0]) == 1]",
        "$[?length(value(@.*)) == 1]", "$[?length(length(@)) == 1]", "$[?length(@) == @.a]",
        "$[?length(@.a) == length(@.b)]", "$[?length(@) != 2]", "$[?length(@) < 3]", "$[?length(@[0]) == 1]",
        "$[?count(@) == 1]", "$[?count($) == 1]", "$[?count($.a) == 1]", "$[?count($[0]) == 1]", "$[?count(@.a) == 1]",
        "$[?count(@..a) >= 1]", "$[?count(@[0,0]) == 2]", "$[?count(@['a','a']) == 2]", "$[?count(@.a.a) == 1]",
        "$[?count(@.*) == count(@..*)]", "$[?count(@[?@.a]) == 1]", "$[?count(@.*) == length(@)]",
        "$[?value(@) == @]", "$[?value(@.*) == 1]", "$[?value(@..a) == 1]", "$[?value(@.a) == @.a]",
        "$[?value($.a) == 1]", "$[?value(@[0,0]) == 1]", "$[?value(@.x) == value(@.y)]", "$[?value(@.*) == value(@..*)]",
        "$[?value(@) == null]", "$[?value(@) == false]", "$[?value(@.a) == null]", "$[?value(@.a) == false]",
        "$[?value(@) == 0]", "$[?value(@) == '']", "$[?length(value(@)) == 3]", "$[?value(@[?@ == 1]) == 1]",
        "$[?count(@) == count($)]", "$[?length(@) == count(@.*)]",
        # 'nothing' from a function is equal to nothing else: not to [], {}, "", 0, false, null
        "$[?length(@.n) == @.e]", "$[?length(@.a) == @.b]", "$[?value(@.zz) == @.b]", "$[?value(@.*) == @.b]",
        "$[?@.b == length(@.a)]", "$[?length(@.a) != @.b]", "$[?value(@.zz) == @.a]", "$[?length(@.a) == length(@.n)]",
        "$[?value(@.zz) <= @.b]", "$[?length(@.n) >= @.e]",
    ]
    return out


def arr_doc():
    return list(CHILDREN)


def obj_doc():
    d = {"a": 1}
    for i, c in enumerate(CHILDREN):
        d[f"k{i}"] = c
    return d


def shards(tier):
    out = [{"part": "builtin"}]
    out += [{"part": "probe", "name": name} for name in sorted(SIGS)]
    return out


def placements(name, call):
    _, ret = SIGS[name]
    if ret == "V":
        return [f"$[?{call} == 1]", f"$[?{call} == {call}]", f"$[?@.a == {call}]", f"$[?fv_l({call})]"]
    if ret == "L":
        return [f"$[?{call}]", f"$[?!{call}]", f"$[?{call} && @.a]", f"$[?fl_l({call})]"]
    return [f"$[?{call}]", f"$[?!{call}]", f"$[?fn_l({call})]", f"$[?count({call}) == 1]", f"$[?fl_l({call})]"]


def check_probe_query(query, doc):
    """-> (kind, expected, observed) | None"""
    v = rt.classify(query, registry=REGISTRY)
    if v.cls != "valid":
        raise AssertionError(f"generator produced non-valid query {query!r}: {v}")
    del REF_RECORD[:]
    expected = ev.evaluate(v.ast, doc, ref_env())
    want_rec = sorted(map(repr, REF_RECORD))
    env = impl_env()
    r = impl.run(env.compile, query)
    if r[0] != "ok":
        return None  # C05's subject (and its known finding)
    del RECORD[:]
    f = impl.run(r[1].find, doc)
    got_rec = sorted(map(repr, RECORD))
    if f[0] != "ok":
        return ("raised", "completes", {"raised": f[1], "msg": f[3]})
    if got_rec != want_rec:
        extra = [x for x in got_rec if x not in want_rec][:3]
        missing = [x for x in want_rec if x not in got_rec][:3]
        return ("arguments-received", {"missing_calls": missing}, {"unexpected_calls": extra})
    why = diff.compare_nodes(f[1], expected)
    if why:
        return ("wrong-nodelist", [[list(l), impl.jsonable(x)] for l, x in expected],
                {"nodes": impl.nodes_obs(f[1]), "why": why})
    return None


def check_case(case):
    doc = impl.unjsonable(case["doc"])
    if case.get("probe"):
        bad = check_probe_query(case["query"], doc)
        if bad:
            return violation(bad[0], case, bad[1], bad[2], "wrong")
        return None
    return diff.check_query_doc({"query": case["query"], "doc": case["doc"]})


def run_shard(desc):
    sh = Shard(PROPERTY)
    docs = [arr_doc(), obj_doc()]
    if desc["part"] == "builtin":
        for q in builtin_queries():
            for doc in docs:
                sh.states += len(doc)
                sh.transitions += len(doc)
                sh.evaluations += len(doc)
                sh.traces += 1
                v = diff.ast_of(q)
                assert v.cls == "valid", (q, v)
                exp = ev.evaluate(v.ast, doc)
                sh.nontrivial += len(exp)
                d = diff.diff(q, doc)
                if d:
                    found = False
                    if "$" not in q[1:]:
                        for case in diff.per_child_cases(q, doc):
                            vv = diff.check_query_doc(case)
                            if vv:
                                found = True
                                sh.violation(vv)
                    if not found:
                        sh.violation(violation(d[0], {"query": q, "doc": impl.jsonable(doc)}, d[1], d[2], "wrong"))
            sh.sample({"query": q}, limit=2)
    else:
        name = desc["name"]
        params, _ = SIGS[name]
        for args in itertools.product(*[SHAPES[p] for p in params]):
            call = f"{name}({', '.join(args)})"
            for q in placements(name, call):
                for doc in docs:
                    sh.states += 1
                    sh.transitions += len(doc)
                    sh.traces += 1
                    sh.evaluations += 1
                    bad = check_probe_query(q, doc)
                    sh.nontrivial += len(REF_RECORD)
                    if bad:
                        # name the one child that shows it
                        found = False
                        if "$" not in q[1:]:
                            for case in diff.per_child_cases(q, doc):
                                case["probe"] = True
                                vv = check_case(case)
                                if vv:
                                    found = True
                                    sh.violation(vv)
                                    break
                        if not found:
                            sh.violation(violation(bad[0], {"query": q, "doc": impl.jsonable(doc), "probe": True},
                                                   bad[1], bad[2], "wrong"))
                sh.sample({"query": q}, limit=1)
    return sh
