"""C02 — filter selection (existence tests, !, &&, ||, parentheses, @ and $ scoping).

Expressions are generated as *text* from units joined by && / || with optional
parentheses and negation; grouping and precedence are decided by the reference
parser R2, never by the generator.  Every expression is evaluated on documents whose
children range over every JSON kind (incl. 0, false, "", null, [], {}), as array
elements and as object member values, in several syntactic contexts.
"""
import itertools

from mc.core import diff, impl
from mc.core.explore import Shard, violation
from mc.ref import eval as ev

PROPERTY = "C02"
RULE = (
    "all filter expressions built from <=2 units over 31 atoms x 4 unit forms "
    "(x, !x, (x), !(x)) and <=3 units over a 16-unit subset (<=4 units over 8 units in "
    "thorough), joined by &&/|| with every parenthesisation/negation of sub-groups; "
    "each is parsed by the reference parser and run through find() in several "
    "contexts on array and object documents whose children cover every JSON kind; "
    "distinct by construction; a (expression, child) pair is non-trivial when the "
    "reference model selects the child"
)
ASSUMPTIONS = [
    "oracle = R2 parse (precedence/grouping) + R3 evaluation",
    "match/search atoms use trivially simple patterns (the I-Regexp semantics are C11's subject)",
]

TESTS = ["@", "@.a", "@.b", "@[0]", "@[-1]", "@[-2]", "@.*", "@..a", "@[?@.a]", "$", "$.a", "$[0]", "$.x",
         "@[?@ == 1]", "match(@.a, 'a')", "search(@, 'a')"]
CMPS = ["@.a == 1", "@.a == $.a", "@ == null", "@ == false", "@ == 0", "@ == ''", "@.a < @.b",
        "count(@.*) == 1", "length(@) == 1", "value(@.*) == 1", "1 == 1", "@[0] != @[1]", "@.a >= 1",
        "@[-1] == 1", "@[-2] == @[0]", "length(@.a) < 2", "count(@.*) == 0"]
SMALL_T = ["@", "@.a", "@[0]", "$.a", "@.*"]
SMALL_C = ["@.a == 1", "@ == 0", "1 == 2"]


def units(tests, cmps, forms=4):
    out = []
    for t in tests:
        out += [t, "!" + t] + ([f"({t})", f"!({t})"] if forms == 4 else [])
    for c in cmps:
        out += [c, f"!({c})"] + ([f"({c})", f"! ( {c} )"] if forms == 4 else [])
    return out


CHILDREN = [
    0, 1, "", "a", None, False, True, 1.5, [], {},
    {"a": 1}, {"a": 0}, {"a": None}, {"a": False}, {"a": ""}, {"a": "a", "b": "b"}, {"a": 1, "b": 2},
    {"a": 2, "b": 1}, {"b": 1}, {"a": [1]}, {"a": {"a": 1}}, {"a": []}, {"x": {"a": 1}},
    [{"a": 1}], [1, 2], [0], [1], [[1]], [None], [False, False], [{"a": 0}, {"b": 1}], "abc",
]


def arr_doc():
    return [c for c in CHILDREN]


def obj_doc():
    d = {"a": 1}
    for i, c in enumerate(CHILDREN):
        d[f"k{i}"] = c
    return d


def dag_doc():
    """a JSON value in which the same containers are reachable along several paths (shared, not
    cyclic): x = {...}; [x, x, {"a": x}] is an ordinary value as far as RFC 9535 is concerned"""
    x = {"a": 1, "b": [1, {"a": 2}]}
    return [x, x, {"a": x, "b": x["b"]}, [x["b"], x["b"]], x["b"]]


def contexts(e, full):
    """(query text, document) pairs for expression e"""
    out = [(f"$[?{e}]", arr_doc()), (f"$[?{e}]", obj_doc())]
    if full:
        out += [
            (f"$.k[? {e} ]", {"k": arr_doc(), "a": 2}),
            (f"$..[?{e}]", {"k": [{"a": 1}, 0, [1]], "a": {"a": 0, "b": [False]}}),
            (f"$[?@[?{e}]]", [arr_doc(), obj_doc(), 1, [], [0], [{"a": 1}], {"k": {"a": 1}}]),
            (f"$[?{e}, ?{e}]", [{"a": 1}, 0, [1], {"b": 1}]),
            (f"$[*][?{e}]", [[{"a": 1}, 0], {"k": [1], "l": 0}, 3]),
            (f"$[?{e}]", dag_doc()), (f"$..[?{e}]", dag_doc()),
            (f"$[?{e}]", 1), (f"$[?{e}]", "a"), (f"$[?{e}]", None), (f"$[?{e}]", True),
        ]
    return out


def BOUNDS(tier):
    return {"atoms": len(TESTS) + len(CMPS), "unit_forms": 4, "children_kinds": len(CHILDREN),
            "max_units": 3 if tier == "quick" else 4,
            "contexts": ["$[?e] on array", "$[?e] on object", "$.k[? e ]", "$..[?e]", "$[?@[?e]]",
                         "$[?e, ?e]", "$[*][?e]", "$[?e] and $..[?e] on a value with shared containers", "scalar roots"]}


U_ALL = units(TESTS, CMPS)
U_SMALL = units(SMALL_T, SMALL_C, forms=2)
U_TINY = units(["@", "@.a", "$.a"], ["@ == 0"], forms=2)
OPS = ["&&", "||"]


def exprs(desc):
    part = desc["part"]
    if part == "one":
        for u in U_ALL:
            yield u, True
    elif part == "two":
        u1 = U_ALL[desc["i"]]
        for u2 in U_ALL:
            for op in OPS:
                yield f"{u1} {op} {u2}", False
                yield f"({u1}{op}{u2})", False
                yield f"!({u1} {op} {u2})", False
    elif part == "two_ctx":
        u1 = U_SMALL[desc["i"]]
        for u2 in U_SMALL:
            for op in OPS:
                yield f"{u1} {op} {u2}", True
                yield f"!({u1} {op} {u2})", True
    elif part == "three":
        u1 = U_SMALL[desc["i"]]
        for u2 in U_SMALL:
            for u3 in U_SMALL:
                for o1 in OPS:
                    for o2 in OPS:
                        yield f"{u1} {o1} {u2} {o2} {u3}", False
                        yield f"({u1} {o1} {u2}) {o2} {u3}", False
                        yield f"{u1} {o1} ({u2} {o2} {u3})", False
                        yield f"!({u1} {o1} {u2}) {o2} {u3}", False
                        yield f"{u1} {o1} !({u2} {o2} {u3})", False
    elif part == "four":
        u1 = U_TINY[desc["i"]]
        for u2, u3, u4 in itertools.product(U_TINY, repeat=3):
            for o1, o2, o3 in itertools.product(OPS, repeat=3):
                yield f"{u1} {o1} {u2} {o2} {u3} {o3} {u4}", False
                yield f"{u1} {o1} ({u2} {o2} {u3}) {o3} {u4}", False
                yield f"!({u1} {o1} {u2}) {o2} !({u3} {o3} {u4})", False
                yield f"{u1} {o1} !({u2} {o2} ({u3} {o3} {u4}))", False


def shards(tier):
    out = [{"part": "one"}]
    out += [{"part": "two", "i": i} for i in range(len(U_ALL))]
    out += [{"part": "two_ctx", "i": i} for i in range(len(U_SMALL))]
    out += [{"part": "three", "i": i} for i in range(len(U_SMALL))]
    if tier == "thorough":
        out += [{"part": "four", "i": i} for i in range(len(U_TINY))]
    return out


check_case = diff.check_query_doc


def run_one(sh, query, doc):
    v = diff.ast_of(query)
    assert v.cls == "valid", (query, v)
    r = impl.run(impl.jp.compile, query)
    sh.traces += 1
    if r[0] != "ok":
        sh.violation(violation("compile-raised", {"query": query}, "compiles",
                               {"raised": r[1], "msg": r[3]}, "wrong"))
        return
    exp = ev.evaluate(v.ast, doc)
    n = len(doc) if isinstance(doc, (list, dict)) else 1
    sh.evaluations += n
    sh.nontrivial += len(exp)
    d = diff.diff(query, doc, compiled=r[1])
    if d is None:
        return
    found = False
    # split so that the case names the one child that is selected wrongly
    if query.startswith("$[?") and isinstance(doc, (list, dict)) and "$" not in query[1:]:
        for case in diff.per_child_cases(query, doc):
            vv = check_case(case)
            if vv:
                found = True
                sh.violation(vv)
    if not found:
        sh.violation(violation(d[0], {"query": query, "doc": impl.jsonable(doc)}, d[1], d[2], "wrong"))


def run_shard(desc):
    sh = Shard(PROPERTY)
    for e, full in exprs(desc):
        sh.states += 1
        sh.transitions += 1 + e.count("&&") + e.count("||")
        for query, doc in contexts(e, full):
            run_one(sh, query, doc)
        sh.sample({"expression": e, "query": f"$[?{e}]"}, limit=1)
    return sh
