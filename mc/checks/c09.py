"""C09 — string literals and member names decode exactly as RFC 9535 specifies.

Exhaustive over the code space: every Unicode scalar value raw, every \\uXXXX escape
(lower / upper / mixed hex case), surrogate-pair escapes (all boundary pairs in quick,
all 1024 x 1024 in thorough), every two-character escape \\c for all 128 ASCII c,
every truncation of representative escapes, and all sequences of <= 3 items over a
30-item alphabet of spellings — in both quote styles and in both positions (name
selector, comparison literal).
Oracle: the string-literal decoder of the reference parser (written from the ABNF).
The decoded value is observed behaviourally: `$[<lit>]` must select member <decoded>
of {<decoded>: 1}; `$[?@ == <lit>]` must select exactly the element equal to it.
"""
import itertools

from mc.core import impl
from mc.core.explore import Shard, violation
from mc.ref import abnf
from mc.ref import parser as rp

PROPERTY = "C09"
RULE = (
    "every literal body from the spaces {raw code point, \\\\uXXXX x 3 hex cases, surrogate "
    "pairs, \\\\c for 128 ASCII c, truncated escapes, sequences of <=3 of 30 items} x 2 quote "
    "styles x 2 positions; the reference decoder says either 'decodes to s' (then the query "
    "must compile and select exactly the member/element s) or 'invalid' (then compile() must "
    "raise a JSONPathError); distinct by construction; non-trivial = literal contains an "
    "escape, a quote or a non-ASCII / control character"
)
ASSUMPTIONS = ["oracle = string_literal() of mc/ref/parser.py, transcribed from the RFC 9535 ABNF"]

ITEMS = [
    "a", "'", '"', "\\'", '\\"', "\\\\", "\\/", "\\n", "\\u0041", "\\u0000", "\\ud83d\\ude00",
    "\\ud83d", "\\ude00", "\\x", "\\", "\x01", "\U0001F600", "\x7f", "\\u005c", "\\u0027", " ", "/", "u",
    "\\U0041", "\\u00", "\\uD83D\\u0041", "\\uD83D\\\\", "\t", "é", "\\b",
]
HI_B = [0xD800, 0xD801, 0xDBFE, 0xDBFF]
LO_B = [0xDC00, 0xDC01, 0xDFFE, 0xDFFF]


def BOUNDS(tier):
    return {"raw_code_points": "all 1 112 064 scalar values" if tier == "thorough" else "U+0000..U+FFFF + plane boundaries",
            "bmp_escapes": "0000..FFFF x {lower, UPPER, Mixed}",
            "surrogate_pairs": "all 1 048 576" if tier == "thorough" else "4x1024 + 1024x4 boundary pairs",
            "two_char_escapes": 128, "sequence_items": len(ITEMS), "max_sequence": 3,
            "quote_styles": 2, "positions": ["name selector", "comparison literal", "second name of a selection in a filter (sequences, escapes)",
                                               "name in a function argument (sequences, escapes)"]}


def cps(tier):
    if tier == "thorough":
        return [c for c in range(0x110000)]
    out = list(range(0x10000))
    for plane in range(1, 17):
        base = plane * 0x10000
        out += list(range(base, base + 8)) + list(range(base + 0xFFF8, base + 0x10000))
    return out


def shards(tier):
    out = []
    cp = cps(tier)
    step = 4096
    for lo in range(0, len(cp), step):
        out.append({"space": "raw", "lo": lo, "hi": min(lo + step, len(cp)), "tier": tier})
    for lo in range(0, 0x10000, 4096):
        out.append({"space": "esc", "lo": lo, "hi": lo + 4096})
    if tier == "thorough":
        for hi in range(0xD800, 0xDC00, 16):
            out.append({"space": "pairs_all", "lo": hi, "hi": hi + 16})
    out.append({"space": "pairs_boundary", "part": 0})
    out.append({"space": "pairs_boundary", "part": 1})
    out.append({"space": "ascii_escapes"})
    out.append({"space": "truncated"})
    for i in range(len(ITEMS)):
        out.append({"space": "seq", "i": i})
    return out


def bodies(desc):
    sp = desc["space"]
    if sp == "raw":
        for c in cps(desc["tier"])[desc["lo"]:desc["hi"]]:
            if 0xD800 <= c <= 0xDFFF:
                continue
            yield chr(c)
            yield "a" + chr(c) + "b"
    elif sp == "esc":
        for c in range(desc["lo"], desc["hi"]):
            h = "%04x" % c
            yield "\\u" + h
            yield "\\u" + h.upper()
            yield "x\\u" + h[0].upper() + h[1] + h[2].upper() + h[3] + "y"
    elif sp == "pairs_all":
        for hi in range(desc["lo"], desc["hi"]):
            for lo in range(0xDC00, 0xE000):
                yield "\\u%04x\\u%04X" % (hi, lo)
    elif sp == "pairs_boundary":
        if desc["part"] == 0:
            for hi in HI_B:
                for lo in range(0xDB00, 0xE100):
                    yield "\\u%04X\\u%04x" % (hi, lo)
        else:
            for lo in LO_B:
                for hi in range(0xD700, 0xDD00):
                    yield "\\u%04x\\u%04X" % (hi, lo)
    elif sp == "ascii_escapes":
        for c in range(128):
            yield "\\" + chr(c)
            yield "a\\" + chr(c) + "0041"
    elif sp == "truncated":
        for full in ("\\u00e9", "\\uD83D\\uDE00", "\\n", "ab\\u0041cd", "\\ud83d\\ude00\\ud83d\\ude00"):
            for i in range(len(full) + 1):
                yield full[:i]
                yield full[:i] + "z"
                yield full[i:]
    elif sp == "seq":
        a = ITEMS[desc["i"]]
        yield a
        for b in ITEMS:
            yield a + b
            for c in ITEMS:
                yield a + b + c


def ref_decode(lit):
    """-> decoded string | None (invalid)"""
    p = rp._P(lit)
    try:
        v, q = p.string_literal(0)
    except rp.Fail:
        return None
    if q != len(lit):
        return None
    return v


def check_literal(lit, position):
    exp = ref_decode(lit)
    if position == "name":
        query = "$[" + lit + "]"
    elif position == "name2":
        # second selector of a bracketed selection inside a filter query
        query = "$[?@['zz', " + lit + "]]"
    elif position == "relname":
        # name selector of a relative singular query that is a comparison operand
        query = "$[?@[" + lit + "] == 1]"
    elif position == "arg":
        # inside a function argument, after another argument-like comma
        query = "$[?count(@[*, " + lit + "]) == 2]"
    else:
        query = "$[?@ == " + lit + "]"
    case = {"query": query, "position": position}
    r = impl.run(impl.jp.compile, query)
    if exp is None:
        if r[0] == "ok":
            return violation("accepted-invalid-literal", case, "JSONPathError", "accepted", "accepted")
        if not r[2]:
            return violation("wrong-exception", case, "JSONPathError", {"raised": r[1]}, "crash")
        return None
    if r[0] != "ok":
        return violation("rejected-valid-literal", case, {"decodes_to": exp},
                         {"raised": r[1], "msg": r[3]}, "rejected")
    q = r[1]
    if position == "name":
        doc = {exp: 1, exp + "x": 2, "zz": 3}
        want = [[[exp], 1]]
    elif position == "name2":
        doc = [{exp + "x": 1}, {exp: 2}, 0]
        want = [[[1], impl.jsonable({exp: 2})]]
    elif position == "relname":
        doc = [{exp + "x": 1}, {exp: 1}, {exp: 2}, 1]
        want = [[[1], impl.jsonable({exp: 1})]]
    elif position == "arg":
        doc = [{exp + "x": 1}, {exp: 2}, {exp: 1, exp + "y": 3, "k": 0}]
        want = [[[1], impl.jsonable({exp: 2})]]
    else:
        doc = [exp + "x", exp, 0, None]
        want = [[[1], exp]]
    res = impl.run(q.find, doc)
    if res[0] != "ok":
        return violation("find-raised", case, want, {"raised": res[1]}, "wrong")
    got = impl.nodes_obs(res[1])
    if got != want:
        return violation("decoded-differently", case, {"decodes_to": exp, "nodes": want}, {"nodes": got}, "wrong")
    return None


def check_case(case):
    q = case["query"]
    pos = case["position"]
    if pos == "name2":
        lit = q[len("$[?@['zz', "):-2]
    elif pos == "relname":
        lit = q[len("$[?@["):-len("] == 1]")]
    elif pos == "arg":
        lit = q[len("$[?count(@[*, "):-len("]) == 2]")]
    else:
        lit = q[2:-1] if pos == "name" else q[len("$[?@ == "):-1]
    return check_literal(lit, case["position"])


def run_shard(desc):
    sh = Shard(PROPERTY)
    first = None
    for body in bodies(desc):
        if any(0xD800 <= ord(ch) <= 0xDFFF for ch in body):
            continue
        nt = any(ch in "\\'\"" or ord(ch) < 0x20 or ord(ch) > 0x7E for ch in body)
        for quote in ("'", '"'):
            lit = quote + body + quote
            if first is None:
                first = lit
            sh.states += 1
            extra = ("name2", "arg", "relname") if desc["space"] in ("seq", "ascii_escapes", "truncated", "pairs_boundary") else ()
            for position in ("name", "cmp") + extra:
                sh.transitions += 1
                sh.traces += 1
                sh.evaluations += 1
                if nt:
                    sh.nontrivial += 1
                v = check_literal(lit, position)
                if v:
                    # nothing is reported on one recogniser's word alone
                    in_l = abnf.jsonpath().matches("string-literal", lit)
                    if in_l != (ref_decode(lit) is not None):
                        raise AssertionError(f"R1/R2 disagree on literal {lit!r}")
                    sh.violation(v)
    sh.sample({"space": desc, "first_literal": first}, limit=1)
    return sh
