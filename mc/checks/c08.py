"""C08 — nodes carry exact locations and canonical, re-queryable normalized paths.

Spaces: (a) every Unicode scalar value as a one-character member name (BMP + plane
boundaries in quick, all in thorough), all names of length <= 3 over a 17-character
special alphabet, the empty name; (b) every node produced by every query of depth <= 2
over the C01 segment alphabet (negative indices, reverse slices, descendants,
duplicates) on every JSON tree with <= 4 (quick) / 5 (thorough) nodes, plus filter and
descendant queries on documents with special names at several levels; (c) arrays of
length 0..5 reached through every index and every (start, end, step) over a boundary
alphabet (negative, beyond the length, +-(2^53-1), reverse).
Oracle per node: following node.location from the root reaches the object that *is*
node.value; node.path() equals R4's rendering of the location and is derivable from
the normalized-path ABNF (R1); find(node.path(), doc) returns exactly one node with the
same location and the identical value.  Per nodelist: values()/paths()/items() agree.
"""
import itertools

from mc.checks import c01
from mc.core import impl
from mc.core.explore import Shard, violation
from mc.ref import abnf
from mc.ref import paths as rpaths

PROPERTY = "C08"
RULE = (
    "names: every scalar value as a 1-character member name, all names of length<=3 over 17 "
    "special characters (quotes, backslash, slash, NUL, BS, VT, US, space, DEL, U+0080, non-BMP, a, t, n, u, LF), "
    "empty name; nodes: all nodes returned by all depth<=2 queries over the 26-segment alphabet on "
    "all JSON trees with <=4/5 nodes and by descendant/filter queries on special-name documents; "
    "each node: location walk + identity, path()==reference rendering, path in normalized-path "
    "ABNF, re-query returns exactly that node; distinct (document, location) pairs are counted once; "
    "non-trivial = node with a non-empty location"
)
ASSUMPTIONS = ["oracle = mc/ref/paths.py (RFC 9535 2.7 rendering) and the normalized-path ABNF via the generic engine"]
SPECIAL = ["'", '"', "\\", "/", "\x00", "\x08", "\x0b", "\x1f", " ", "\x7f", "\x80", "\U0001F600", "a",
           "t", "n", "u", "\n"]


def BOUNDS(tier):
    return {"one_char_names": "all scalar values" if tier == "thorough" else "BMP + plane boundaries",
            "special_alphabet": len(SPECIAL), "max_special_name_length": 3,
            "trees_max_nodes": 4 if tier == "quick" else 5, "query_depth": 2}


def cps(tier):
    if tier == "thorough":
        return [c for c in range(0x110000) if not 0xD800 <= c <= 0xDFFF]
    out = [c for c in range(0x10000) if not 0xD800 <= c <= 0xDFFF]
    for plane in range(1, 17):
        base = plane * 0x10000
        out += list(range(base, base + 8)) + list(range(base + 0xFFF8, base + 0x10000))
    return out


def shards(tier):
    out = []
    cp = cps(tier)
    step = 2048
    for lo in range(0, len(cp), step):
        out.append({"space": "cp", "lo": lo, "hi": min(lo + step, len(cp)), "tier": tier})
    for i in range(len(SPECIAL)):
        out.append({"space": "special", "i": i})
    n = 4 if tier == "quick" else 5
    c01.get_docs(n)
    for i in range(len(c01.SEGMENTS)):
        out.append({"space": "trees", "first": i, "n": n})
    out.append({"space": "deep"})
    for ln in range(0, 6):
        out.append({"space": "slices", "len": ln})
    return out


def check_node(doc, node, compiled_cache=None):
    """-> (kind, expected, observed) | None for one node"""
    loc = node.location
    try:
        target = impl.follow(doc, loc)
    except Exception as e:  # noqa: BLE001
        return ("location-not-walkable", "walkable location", {"location": list(loc), "error": type(e).__name__})
    if target is not node.value:
        return ("location-wrong-object", "location reaches node.value", {"location": list(loc)})
    for k, parent in zip(loc, _parents(doc, loc)):
        if isinstance(parent, list) and (not isinstance(k, int) or isinstance(k, bool) or k < 0):
            return ("location-not-normalized", "non-negative int index", {"location": list(loc)})
        if isinstance(parent, dict) and not isinstance(k, str):
            return ("location-not-normalized", "str member name", {"location": list(loc)})
    want = rpaths.render(loc)
    got = node.path()
    if got != want:
        return ("path-not-canonical", want, got)
    if not abnf.is_normalized_path(want):
        raise AssertionError(f"R4 rendering {want!r} is not in the normalized-path ABNF")
    r = impl.run(impl.jp.find, got, doc)
    if r[0] != "ok":
        return ("path-not-requeryable", {"path": want, "nodes": 1}, {"raised": r[1], "msg": r[3]})
    nodes = r[1]
    if len(nodes) != 1 or nodes[0].location != loc or nodes[0].value is not node.value:
        return ("path-requery-wrong", {"path": want, "location": list(loc)},
                {"nodes": [list(n.location) for n in nodes]})
    return None


def _parents(doc, loc):
    cur = doc
    for k in loc:
        yield cur
        cur = cur[k]


def check_nodelist(nodes):
    vals, pths, items = nodes.values(), nodes.paths(), nodes.items()
    if len(vals) != len(nodes) or any(v is not n.value for v, n in zip(vals, nodes)):
        return ("values-disagree", "values() == [n.value]", "mismatch")
    if pths != [n.path() for n in nodes]:
        return ("paths-disagree", "paths() == [n.path()]", "mismatch")
    if len(items) != len(nodes) or any(
        (it[0] != n.path() or it[1] is not n.value) for it, n in zip(items, nodes)
    ):
        return ("items-disagree", "items() == [(n.path(), n.value)]", "mismatch")
    if len(nodes) > 1:
        # the node list is a list: reordered in place it still describes its nodes
        nodes.reverse()
        try:
            if nodes.paths() != [n.path() for n in nodes]:
                return ("paths-disagree", "paths() == [n.path()] after the list was reversed in place", "mismatch")
            if any((it[0] != n.path() or it[1] is not n.value) for it, n in zip(nodes.items(), nodes)):
                return ("items-disagree", "items() == [(n.path(), n.value)] after the list was reversed in place", "mismatch")
        finally:
            nodes.reverse()
    return None


def check_query_doc(query, doc, seen, sh=None):
    """all nodes of one query on one doc; `seen` caches (id(doc), location)"""
    r = impl.run(impl.jp.find, query, doc)
    if r[0] != "ok":
        return [("find-raised", "returns", {"raised": r[1], "msg": r[3]}, None)]
    nodes = r[1]
    out = []
    nl = check_nodelist(nodes)
    if nl:
        out.append(nl + (None,))
    for n in nodes:
        key = (id(doc), n.location)
        if key in seen:
            # this location was checked before (path, re-query): only make sure that THIS node's
            # value is the object at its location (two nodes must not share a location by mistake)
            try:
                same = impl.follow(doc, n.location) is n.value
            except Exception:  # noqa: BLE001
                same = False
            if not same:
                out.append(("location-wrong-object", "location reaches node.value", {"location": list(n.location)},
                            list(n.location)))
            continue
        seen.add(key)
        if sh is not None:
            sh.states += 1
            sh.transitions += 3
            sh.traces += 1
            sh.evaluations += 1
            if n.location:
                sh.nontrivial += 1
        bad = check_node(doc, n)
        if bad:
            out.append(bad + (list(n.location),))
    return out


def check_case(case):
    doc = impl.unjsonable(case["doc"])
    res = check_query_doc(case["query"], doc, set())
    for kind, exp, obs, loc in res:
        if case.get("location") is None or loc == case.get("location") or loc is None:
            return violation(kind, case, exp, obs, "bad-node")
    return None


DEEP_DOCS = [
    {"'": {"\\": [{"\x00": 1, "\x1f": [2]}], '"': {"": 3}}, "a b": [[], {}, [0, [1, {"\n": None}]]]},
    [{"": {"": {"": 0}}}, {"\U0001F600": [1, 2, 3]}, {"/": 1, "\x7f": 2, "\\'": 3, "\\\\": 4}],
    {" ": {"\t": 1, "\b": 2, "\f": 3, "\r": 4}, "0": [1], "-1": {"1": 2}, "[0]": 1, "$": 2, "'a'": 3},
]
# arrays / objects holding equal (==) but distinct values: every node's location is its own
TWIN_DOCS = [
    [{"a": 1}, {"a": 2}, {"a": 1}, {"a": 1.0}, {"a": True}],
    [1, True, 1.0, 0, False, 0.0, -0.0, "", "", [], [], {}, {}, None, None, [1], [True], [1.0]],
    {"p": [[0], [0], [False]], "q": [[0], [0]], "r": {"x": [1, 1, 1], "y": [1, 1, 1]}},
    ["a", "a", ["a", "a"], {"k": "a", "l": "a"}, ["a", "a"]],
]
TWIN_QUERIES = ["$[?@.a == 1]", "$[?@ == true]", "$[?@ == 1]", "$[?@ == 0]", "$[?@]", "$[?@ == $[0]]", "$..[?@ == 1]",
                "$..[?@ == 0 || @ == 'a']", "$[?@ != 2]", "$[*][?@]", "$..[?@][?@]", "$[?@ == @]", "$..[?length(@) == 1]",
                "$[?@ == 'a', ?@ == 'a']", "$..*", "$[?@[0] == 0]", "$..[?@[0] == 1][0]", "$[?@ == ''][0]"]
import collections as _collections

# objects that are OrderedDicts (json.load(object_pairs_hook=OrderedDict)) at every level
DEEP_DOCS.append(_collections.OrderedDict([
    ("store", _collections.OrderedDict([("book", [_collections.OrderedDict([("price", 1)]), _collections.OrderedDict([("price", 2)])]),
                                        ("k", _collections.OrderedDict())])),
    ("0", [1, _collections.OrderedDict([("a b", [3])])])]))
DEEP_QUERIES = ["$..*", "$..[*]", "$[*][*]", "$..[?@]", "$[?@]", "$..[-1]", "$..[::-1]", "$..[0,0]", "$[*]..*", "$"]


def run_shard(desc):
    sh = Shard(PROPERTY)
    sp = desc["space"]
    seen = set()

    def report(query, doc, res):
        for kind, exp, obs, loc in res:
            small = doc
            if loc and len(loc) == 1 and isinstance(doc, dict) and len(doc) > 4 and loc[0] in doc:
                small = {loc[0]: doc[loc[0]]}  # name the one member that fails
            sh.violation(violation(kind, {"query": query, "doc": impl.jsonable(small), "location": loc},
                                   exp, obs, "bad-node"))

    if sp == "cp":
        names = [chr(c) for c in cps(desc["tier"])[desc["lo"]:desc["hi"]]]
        doc = {n: [i] for i, n in enumerate(names)}
        report("$[*]", doc, check_query_doc("$[*]", doc, seen, sh))
        sh.sample({"query": "$[*]", "names": [repr(n) for n in names[:3]]}, limit=1)
    elif sp == "special":
        a = SPECIAL[desc["i"]]
        names = [a] + [a + b for b in SPECIAL] + [a + b + c for b in SPECIAL for c in SPECIAL]
        if desc["i"] == 0:
            names.append("")
        doc = {n: [i] for i, n in enumerate(names)}
        report("$[*]", doc, check_query_doc("$[*]", doc, seen, sh))
        doc2 = {n: {n: i} for i, n in enumerate(names[:40])}
        report("$[*][*]", doc2, check_query_doc("$[*][*]", doc2, seen, sh))
        sh.sample({"query": "$[*]", "names": [repr(n) for n in names[:3]]}, limit=1)
    elif sp == "trees":
        docs = c01.get_docs(desc["n"])
        s1, t1 = c01.SEGMENTS[desc["first"]]
        queries = ["$" + t1] + ["$" + t1 + t2 for _, t2 in c01.SEGMENTS]
        for doc in docs:
            for q in queries:
                res = check_query_doc(q, doc, seen, sh)
                if res:
                    report(q, doc, res)
        sh.sample({"query": queries[1], "doc": impl.jsonable(docs[-1])}, limit=1)
    elif sp == "slices":
        # arrays reached through every index / slice over the boundary alphabet (negative,
        # beyond the length, reverse): locations must be the non-negative positions
        ln = desc["len"]
        vals = [None, 0, 1, -1, 2, -2, 3, -3, ln, -ln, ln + 1, -ln - 1, 6, -6, 2**53 - 1, -(2**53) + 1]
        vals = list(dict.fromkeys(vals))
        arr = [[i] for i in range(ln)]
        doc = {"a": arr, "b": [arr, {"c": arr}]}
        for i in vals:
            if i is None:
                continue
            for q in (f"$.a[{i}]", f"$..[{i}]", f"$.b[*][{i}]"):
                res = check_query_doc(q, doc, set(), sh)
                if res:
                    report(q, doc, res)
        for a in vals:
            for b in vals:
                for c in (None, 1, -1, 2, -2):
                    t = ("" if a is None else str(a)) + ":" + ("" if b is None else str(b)) + ("" if c is None else ":" + str(c))
                    for q in (f"$.a[{t}]", f"$..[{t}]"):
                        res = check_query_doc(q, doc, set(), sh)
                        if res:
                            report(q, doc, res)
        sh.sample({"query": "$.a[-3:]", "doc": impl.jsonable(doc)}, limit=1)
    else:
        for doc in DEEP_DOCS:
            for q in DEEP_QUERIES:
                res = check_query_doc(q, doc, set(), sh)
                if res:
                    report(q, doc, res)
        # a root that is a string holding JSON text is a string: its only node is the root itself
        for doc in ["12", "null", " true ", "[1, 2]", '{"a": [1]}', '"x"', "[", ""]:
            for q in ("$", "$[0]", "$.a", "$..*", "$[*]", "$..[0]", "$[?@]"):
                res = check_query_doc(q, doc, set(), sh)
                if res:
                    report(q, doc, res)
                r = impl.run(impl.jp.find, q, doc)
                if r[0] == "ok" and ((q == "$") != (len(r[1]) == 1) or (q == "$" and r[1][0].value is not doc)):
                    sh.violation(violation("string-root-has-children", {"query": q, "doc": doc, "location": None},
                                           "the root node only" if q == "$" else "no nodes", {"nodes": len(r[1])}, "bad-node"))
        for doc in TWIN_DOCS:
            for q in TWIN_QUERIES + DEEP_QUERIES:
                res = check_query_doc(q, doc, set(), sh)
                if res:
                    report(q, doc, res)
        sh.sample({"query": DEEP_QUERIES[0], "doc": impl.jsonable(DEEP_DOCS[0])}, limit=1)
    return sh
