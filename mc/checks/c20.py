"""C20 — the command-line tool is a faithful, well-behaved front end to find().

Space: option sets {-q | -r file} x {-f file | stdin} x {stdout | -o file} x {--pretty}
x {--debug} (32) x queries {valid structural, valid filter, one per error class:
syntax, type, name, index, lexer-level, number overflow, evaluation-time recursion
error} x documents {small trees, non-ASCII, nesting 150, invalid JSON at three
positions, empty input, non-UTF-8 bytes}.  Driven in-process through cli.main() with
patched argv / stdin / stdout / stderr (SystemExit caught); a fixed subset is replayed
through real `python -m jsonpath_rfc9535` subprocesses and must give the identical
(exit status, stdout, stderr, output file) - that binds the harness to the real
process.
Oracle: success => exit 0 and the output parses to exactly find(q, doc).values()
(multi-line with --pretty); failure => exit != 0, nothing on stdout / in the output
file, and - unless --debug - stderr is exactly one non-empty line without a traceback.
"""
import io
import json
import os
import shutil
import subprocess
import sys
import tempfile

from mc.core import impl, target
from mc.core.explore import Shard, violation

PROPERTY = "C20"
RULE = (
    "full product of 32 option sets x 25 queries x 17 documents (incl. UTF-8 with BOM, UTF-16, UTF-32 files) run in-process through cli.main(); "
    "expected outcome computed from find() (success) or from the input class (failure); 48 cases "
    "replayed through real subprocesses and compared byte for byte with the in-process "
    "observation; distinct by construction; non-trivial = cases whose expected outcome is a failure "
    "or a non-empty result"
)
ASSUMPTIONS = [
    "in-process driving of cli.main() is equivalent to the real process (checked on the subprocess subset in every run)",
    "file encoding of the environment is UTF-8",
]

QUERIES = [
    ("valid", "$.a"), ("valid", "$..a"), ("valid", "$[?@.a == 1]"), ("valid", "$[?match(@.b, 'x.*')]"), ("valid", "$.é"),
    ("valid", "$"), ("valid", "$[?@.a == @.b]"), ("valid", "$[?@ != $[0]]"), ("valid", "$[?@.a < @.b || length(@.a) == 1]"),
    ("valid", "$..[-1]"), ("valid", "$[?@[-1] == 2]"), ("valid", "$[::0]"), ("valid", "$..[0, 1:3:0, -1]"),
    ("syntax", "$["), ("syntax", "$.a b"), ("type", "$[?count(1) == 1]"), ("name", "$[?nosuch(@.a)]"),
    ("index", "$[9007199254740992]"), ("overflow", "$[?@ == 1e400]"), ("syntax", "$[?@ == 'a\x01']"),
    # invalid queries that contain line breaks: the diagnostic must still be one line
    ("syntax", "$['a\nb']"), ("syntax", '$[?@.v == "x\ny"]'), ("syntax", "$\n[\n"), ("syntax", "$.a\r\n b"),
    # blank space around an inline query is part of the query (invalid); a file's is stripped
    ("padded", " $.a"), ("padded", "$.a "), ("padded", "$.a\n"), ("padded", "\t$..a"), ("padded", "$.a\u00a0"),
    ("type", "$[?count(\n1\n) == 1]"), ("name", "$[?\nnosuch(@.a)\n]"), ("valid", "$\n.a"),
]


def deep(n):
    cur = {"a": 1}
    for _ in range(n):
        cur = [cur]
    return cur


DOCS = [
    ("ok", json.dumps({"a": 1, "b": "xy"}).encode()),
    ("ok", json.dumps([{"a": 1, "b": "xyz"}, {"a": 2}, {"a": {"a": [1, None]}}]).encode()),
    ("ok", json.dumps({"é": "ü\U0001F600", "a": ["é"]}, ensure_ascii=False).encode("utf-8")),
    ("ok", b'{"a": "\\ud83d", "b": "x\\udc00y"}'), ("ok", b'[{"a": 1, "b": "xy\\ud800"}, {"a": "\\u00e9\\u4e2d"}]'),
    ("ok", json.dumps([{"a": {"x": 1}, "b": {"y": 1}}, {"a": {"x": [1]}, "b": {"x": [1]}}, {"a": 1.0, "b": 1},
                       {"a": [1], "b": [True]}, {"a": "x", "b": None}]).encode()),
    ("ok", json.dumps({"a": [1, 2], "b": [], "c": [[], [2]]}).encode()), ("ok", json.dumps([[1, 2], [], [2], {}, ""]).encode()),
    ("ok", b"1"), ("ok", b"null"), ("ok", b'"s"'), ("ok", b"[]"),
    ("ok", b'  {"a": [1, 2, {"a": 3}]}\n'),
    ("deep", json.dumps(deep(150)).encode()),
    ("badjson", b'{"a": 1'), ("badjson", b'[1, 2,, 3]'), ("badjson", b'{"a": 1} x'),
    ("badjson", b""),
    ("badbytes", b'{"a": "\xff\xfe"}'),
    ("encoded", b'\xef\xbb\xbf{"a": [1, {"a": 2}], "b": "xyz"}'),
    ("encoded", '{"a": "\u00e9", "b": "xy"}'.encode("utf-16")),
    ("encoded", '[{"a": 1, "b": "xq"}]'.encode("utf-32-le")),
]


def BOUNDS(tier):
    return {"option_sets": 32, "queries": len(QUERIES), "documents": len(DOCS), "subprocess_conformance_cases": 48}


def option_sets():
    out = []
    for qfile in (False, True):
        for dfile in (True, False):
            for ofile in (False, True):
                for pretty in (False, True):
                    for debug in (False, True):
                        out.append({"qfile": qfile, "dfile": dfile, "ofile": ofile, "pretty": pretty, "debug": debug})
    return out


def expected(qclass, query, dclass, docbytes, opts):
    """-> ("ok", output text) | ("fail",)"""
    # an inline query is taken verbatim; the content of a query file is stripped of surrounding
    # blank space (files end with a newline) - nothing else may be altered
    if opts["qfile"]:
        query = query.strip()
    c = impl.run(impl.jp.compile, query)
    if c[0] != "ok":
        return ("fail",)
    # a document file is read as bytes (json detects UTF-8 with BOM / UTF-16 / UTF-32 as RFC 8259
    # section 8.1 describes); standard input is a UTF-8 text stream
    try:
        doc = json.loads(docbytes) if opts["dfile"] else json.loads(docbytes.decode("utf-8"))
    except (ValueError, UnicodeDecodeError):
        return ("fail",)
    r = impl.run(impl.jp.find, query, doc)
    if r[0] != "ok":
        return ("fail",)
    values = r[1].values()
    return ("ok", json.dumps(values, indent=2 if opts["pretty"] else None))


def build_argv(tmp, query, docbytes, opts):
    argv = ["jsonpath-rfc9535"]
    if opts["debug"]:
        argv.append("--debug")
    if opts["pretty"]:
        argv.append("--pretty")
    if opts["qfile"]:
        qp = os.path.join(tmp, "query.txt")
        with open(qp, "w", encoding="utf-8") as f:
            f.write(query + "\n")
        argv += ["-r", qp]
    else:
        argv += ["-q", query]
    stdin_bytes = b""
    if opts["dfile"]:
        dp = os.path.join(tmp, "doc.json")
        with open(dp, "wb") as f:
            f.write(docbytes)
        argv += ["-f", dp]
    else:
        stdin_bytes = docbytes
    op = None
    if opts["ofile"]:
        op = os.path.join(tmp, "out.json")
        if os.path.exists(op):
            os.unlink(op)
        argv += ["-o", op]
    return argv, stdin_bytes, op


def run_inprocess(argv, stdin_bytes, op):
    """-> dict(exit, stdout, stderr, outfile, traceback)"""
    from jsonpath_rfc9535 import cli

    old = (sys.argv, sys.stdin, sys.stdout, sys.stderr)
    # byte-backed text streams with the encoding a real process has: what cannot be encoded
    # fails here exactly as it would on a real stdout / output file
    sob, seb = io.BytesIO(), io.BytesIO()
    so = io.TextIOWrapper(sob, encoding="utf-8", write_through=True)
    se = io.TextIOWrapper(seb, encoding="utf-8", errors="backslashreplace", write_through=True)
    sys.argv = argv
    sys.stdin = io.TextIOWrapper(io.BytesIO(stdin_bytes), encoding="utf-8")
    sys.stdout, sys.stderr = so, se
    code = 0
    tb = False
    try:
        try:
            cli.main()
        except SystemExit as e:
            code = e.code if isinstance(e.code, int) else (0 if e.code is None else 1)
        except BaseException as e:  # noqa: BLE001  uncaught -> the interpreter would print a traceback, exit 1
            code = 1
            tb = True
            se.write("Traceback (most recent call last):\n" + type(e).__name__ + "\n")
    finally:
        sys.argv, sys.stdin, sys.stdout, sys.stderr = old
        # argparse FileType handles are left open by the CLI; flush what was written
        import gc
        gc.collect()
    outfile = None
    if op is not None and os.path.exists(op):
        outfile = open(op, encoding="utf-8").read()
    try:
        so.flush()
        se.flush()
    except Exception:  # noqa: BLE001
        pass
    return {"exit": code, "stdout": sob.getvalue().decode("utf-8", "replace"),
            "stderr": seb.getvalue().decode("utf-8", "replace"), "outfile": outfile, "traceback": tb}


def run_subprocess(argv, stdin_bytes, op):
    env = dict(os.environ, PYTHONPATH=target.REPO, PYTHONIOENCODING="utf-8", PYTHONDONTWRITEBYTECODE="1")
    p = subprocess.run([sys.executable, "-B", "-m", "jsonpath_rfc9535"] + argv[1:], input=stdin_bytes,
                       capture_output=True, env=env, cwd=target.REPO, timeout=60)
    outfile = None
    if op is not None and os.path.exists(op):
        outfile = open(op, encoding="utf-8").read()
    return {"exit": p.returncode, "stdout": p.stdout.decode("utf-8", "replace"),
            "stderr": p.stderr.decode("utf-8", "replace"), "outfile": outfile,
            "traceback": "Traceback" in p.stderr.decode("utf-8", "replace")}


def judge(exp, obs, opts):
    """-> (kind, expected, observed) | None"""
    out_text = obs["outfile"] if opts["ofile"] else obs["stdout"]
    if exp[0] == "ok":
        if obs["exit"] != 0:
            return ("failed-on-valid-input", {"exit": 0}, {"exit": obs["exit"], "stderr": obs["stderr"][-200:]})
        try:
            same = json.loads(out_text) == json.loads(exp[1])
        except Exception:  # noqa: BLE001
            same = False
        if not same:
            return ("wrong-output", exp[1][:200], (out_text or "")[:200])
        if opts["pretty"] and len(exp[1]) > 4 and "\n" not in out_text:
            return ("not-pretty", "indented multi-line JSON with --pretty", (out_text or "")[:200])
        if opts["ofile"] and obs["stdout"]:
            return ("stdout-not-empty", "", obs["stdout"][:100])
        return None
    if obs["exit"] == 0:
        return ("exit-zero-on-failure", {"exit": "non-zero"}, {"exit": 0, "output": (out_text or "")[:100]})
    if obs["stdout"] or (opts["ofile"] and obs["outfile"]):
        return ("partial-output-on-failure", "no output", {"stdout": obs["stdout"][:100], "outfile": obs["outfile"]})
    if not opts["debug"]:
        lines = [ln for ln in obs["stderr"].split("\n") if ln.strip()]
        if "Traceback" in obs["stderr"] or obs["traceback"]:
            return ("traceback-without-debug", "one-line diagnostic", obs["stderr"][-300:])
        if len(lines) != 1:
            return ("diagnostic-not-one-line", "exactly one non-empty line on stderr", obs["stderr"][-300:])
    return None


def check_one(qi, di, oi, tmp, via="inprocess"):
    qclass, query = QUERIES[qi]
    dclass, docbytes = DOCS[di]
    opts = option_sets()[oi]
    argv, stdin_bytes, op = build_argv(tmp, query, docbytes, opts)
    exp = expected(qclass, query, dclass, docbytes, opts)
    obs = run_inprocess(argv, stdin_bytes, op) if via == "inprocess" else run_subprocess(argv, stdin_bytes, op)
    return exp, obs, opts


def check_case(case):
    tmp = tempfile.mkdtemp(prefix="c20-")
    try:
        if "invalid_query" in case:
            opts = case["options"]
            argv, stdin_bytes, op = build_argv(tmp, case["invalid_query"], DOCS[0][1], opts)
            exp = expected("invalid", case["invalid_query"], "ok", DOCS[0][1], opts)
            bad = judge(exp, run_inprocess(argv, stdin_bytes, op), opts)
            return violation(bad[0], case, bad[1], bad[2], bad[0]) if bad else None
        exp, obs, opts = check_one(case["q"], case["d"], case["o"], tmp)
        bad = judge(exp, obs, opts)
        if bad:
            return violation(bad[0], case, bad[1], bad[2], bad[0])
        if case.get("subprocess"):
            exp, obs2, opts = check_one(case["q"], case["d"], case["o"], tmp, via="subprocess")
            if _norm(obs2) != _norm(obs):
                return violation("harness-differs-from-real-process", case, _norm(obs), _norm(obs2), "conformance")
        return None
    finally:
        shutil.rmtree(tmp, ignore_errors=True)


def _norm(o):
    # with --debug / uncaught errors the traceback text differs (paths, frames): compare its presence only
    tb = "Traceback" in o["stderr"] or o["traceback"]
    return {"exit": o["exit"], "stdout": o["stdout"], "outfile": o["outfile"],
            "stderr": "<traceback>" if tb else o["stderr"]}


def shards(tier):
    out = [{"part": "product", "q": qi} for qi in range(len(QUERIES))]
    out += [{"part": "invalid", "k": k} for k in range(4)]
    out += [{"part": "conformance", "k": k} for k in range(8)]
    return out


def case_desc(qi, di, oi):
    return {"q": qi, "d": di, "o": oi, "query": QUERIES[qi][1], "doc_class": DOCS[di][0], "options": option_sets()[oi]}


def run_shard(desc):
    sh = Shard(PROPERTY)
    tmp = tempfile.mkdtemp(prefix="c20-")
    try:
        nopt = len(option_sets())
        if desc["part"] == "invalid":
            # the whole invalid corpus of C15 (every error class, incl. queries that once crashed the
            # parser): always a one-line diagnostic, never a traceback, nothing written
            from mc.checks import c15
            inv = [q for q in c15.INVALID if "\x00" not in q]
            for qn, q in enumerate(inv):
                if qn % 4 != desc["k"]:
                    continue
                for oi in (0, 5, 10, 27):
                    opts = option_sets()[oi]
                    if opts["debug"]:
                        opts = dict(opts, debug=False)
                    argv, stdin_bytes, op = build_argv(tmp, q, DOCS[0][1], opts)
                    exp = expected("invalid", q, "ok", DOCS[0][1], opts)
                    obs = run_inprocess(argv, stdin_bytes, op)
                    sh.states += 1
                    sh.transitions += 1
                    sh.traces += 1
                    sh.evaluations += 1
                    sh.nontrivial += 1
                    bad = judge(exp, obs, opts)
                    if bad:
                        sh.violation(violation(bad[0], {"invalid_query": q, "options": opts}, bad[1], bad[2], bad[0]))
            sh.sample({"invalid_query": inv[desc["k"]]}, limit=1)
        elif desc["part"] == "product":
            qi = desc["q"]
            for di in range(len(DOCS)):
                for oi in range(nopt):
                    sh.states += 1
                    sh.transitions += 1
                    sh.traces += 1
                    sh.evaluations += 1
                    exp, obs, opts = check_one(qi, di, oi, tmp)
                    if exp[0] == "fail" or exp[1] not in ("[]",):
                        sh.nontrivial += 1
                    bad = judge(exp, obs, opts)
                    if bad:
                        sh.violation(violation(bad[0], case_desc(qi, di, oi), bad[1], bad[2], bad[0]))
            sh.sample(case_desc(qi, 0, 0), limit=1)
        else:
            # conformance: a fixed spread of cases through the real process
            k = desc["k"]
            picks = [(qi, di, oi) for qi in range(len(QUERIES)) for di in range(len(DOCS)) for oi in range(nopt)]
            chosen = picks[k * 211 % len(picks)::len(picks) // 6 + 1][:6]
            for qi, di, oi in chosen:
                sh.states += 1
                sh.transitions += 1
                sh.traces += 1
                sh.evaluations += 1
                sh.bump("subprocess_cases")
                exp, obs, opts = check_one(qi, di, oi, tmp)
                exp, obs2, opts = check_one(qi, di, oi, tmp, via="subprocess")
                if _norm(obs2) != _norm(obs):
                    c = case_desc(qi, di, oi)
                    c["subprocess"] = True
                    sh.violation(violation("harness-differs-from-real-process", c, _norm(obs), _norm(obs2), "conformance"))
                bad = judge(exp, obs2, opts)
                if bad:
                    c = case_desc(qi, di, oi)
                    sh.violation(violation(bad[0], c, bad[1], bad[2], bad[0]))
            sh.sample({"subprocess_case": case_desc(*chosen[0])}, limit=1)
    finally:
        shutil.rmtree(tmp, ignore_errors=True)
    return sh
