"""C07 — index and slice selectors implement RFC 9535 array arithmetic.

Alphabet: array lengths x (start, end, step) each from {omitted, 0, +-1, +-2, +-3,
+-len, +-(len+1), +-(len+2), +-(2^53-1)}; indices likewise; object / scalar targets.
Bound: the full product (both tiers); thorough adds lengths 7..9, blank-space
spellings and the selector inside child / descendant / multi-selector contexts.
Oracle: RFC 9535 2.3.4.2.2 Normalize / Bounds / iteration pseudo-code, literally.
"""
from mc.core import impl
from mc.core.explore import Shard, violation

PROPERTY = "C07"
RULE = (
    "full product of array length x start x end x step (each omitted/0/+-1..3/"
    "+-len/+-(len+1)/+-(len+2)/+-(2^53-1)) and of length x index, each run as query "
    "text through find() in several contexts and compared (locations, element "
    "identity, order) with the RFC 2.3.4.2.2 pseudo-code; distinct by construction; "
    "non-trivial = the reference selects at least one element"
)
ASSUMPTIONS = [
    "oracle = literal transcription of RFC 9535 section 2.3.4.2.2 (Normalize, Bounds, loops)",
    "arrays are Python lists of fresh dict objects so element identity is observable",
]
MAXI = 2**53 - 1


def BOUNDS(tier):
    return {
        "lengths": "0..7" if tier == "quick" else "0..12",
        "component_values": "omitted,0,+-1,+-2,+-3,+-len,+-(len+1),+-(len+2),+-(2^53-1)",
        "contexts": CONTEXTS(tier),
        "spellings": SPELLINGS(tier),
    }


def CONTEXTS(tier):
    return ["root", "member", "desc", "desc_overlap", "multi", "mixed", "filter_exists", "filter_count", "filter_value"]


def SPELLINGS(tier):
    return ["plain"] if tier == "quick" else ["plain", "blank"]


def values_for(n):
    vs = {None, 0}
    for k in (1, 2, 3, n, n + 1, n + 2, MAXI):
        vs.add(k)
        vs.add(-k)
    return sorted(vs, key=lambda v: (v is not None, v if v is not None else 0))


# ---- reference (RFC 9535 2.3.4.2.2) ---------------------------------------


def normalize(i, ln):
    return i if i >= 0 else ln + i


def ref_slice(ln, start, end, step):
    if step is None:
        step = 1
    if step == 0:
        return []
    if step > 0:
        if start is None:
            start = 0
        if end is None:
            end = ln
    else:
        if start is None:
            start = ln - 1
        if end is None:
            end = -ln - 1
    n_start = normalize(start, ln)
    n_end = normalize(end, ln)
    if step >= 0:
        lower = min(max(n_start, 0), ln)
        upper = min(max(n_end, 0), ln)
    else:
        upper = min(max(n_start, -1), ln - 1)
        lower = min(max(n_end, -1), ln - 1)
    out = []
    if step > 0:
        i = lower
        while i < upper:
            out.append(i)
            i += step
    else:
        i = upper
        while lower < i:
            out.append(i)
            i += step
    return out


def ref_index(ln, i):
    j = normalize(i, ln)
    return [j] if 0 <= j < ln else []


# ---- spelling ---------------------------------------------------------------


def s(v):
    return "" if v is None else str(v)


def slice_texts(start, end, step, spelling):
    """All spellings of one slice selector."""
    out = []
    if spelling == "plain":
        out.append(f"{s(start)}:{s(end)}:{s(step)}")
        if step is None:
            out.append(f"{s(start)}:{s(end)}")
    else:
        # blank space where slice-selector = [start S] ":" S [end S] [":" [S step]] allows
        a = s(start) + (" " if start is not None else "")
        b = " " + s(end) + ("\t" if end is not None else "")
        out.append(f"{a}:{b}:\n{s(step)}" if step is not None else f"{a}:{b}:")
        if step is None:
            out.append(f"{a}:{b}")
    return out


def make_target(kind, ln):
    if kind == "array":
        return [{"v": i} for i in range(ln)]
    if kind == "object":
        return {"0": {"v": 0}, "-1": {"v": 1}, "1": {"v": 2}, ":": {"v": 3}}
    return {"str": "abc", "int": 3, "null": None, "true": True, "float": 1.5, "jsonstr": "[1, 2, 3]",
            "jsonobjstr": '{"0": 1}', "emptystr": ""}[kind]


def contexts(sel, target, expect_idx, ctx):
    """-> (query text, document, expected [(location, value object)])"""
    if ctx == "root":
        return f"$[{sel}]", target, [((i,), target[i]) for i in expect_idx]
    if ctx == "member":
        doc = {"a": target, "b": [0]}
        return f"$.a[{sel}]", doc, [(("a", i), target[i]) for i in expect_idx]
    if ctx == "desc":
        # descendant segment over {x: target}: visits root (object, no match) then target,
        # then target's elements (dicts {"v": i}: not arrays, no match)
        # (an OrderedDict, as json.load(object_pairs_hook=OrderedDict) returns, is an object too)
        import collections
        doc = {"w": collections.OrderedDict([("x", target)])}
        return f"$..[{sel}]", doc, [(("w", "x", i), target[i]) for i in expect_idx]
    if ctx == "desc_overlap":
        # two descendant segments whose input nodes overlap: `$..w` selects {"w": target} and target,
        # so the array is visited once per input node and every selected element appears twice
        doc = {"w": {"w": target}}
        e = [(("w", "w", i), target[i]) for i in expect_idx]
        return f"$..w..[{sel}]", doc, e + e
    if ctx == "filter_exists":
        # the selector inside an existence test of a filter: the array is the child under test
        doc = [target, [], 0]
        return f"$[?@[{sel}]]", doc, ([((0,), target)] if expect_idx else [])
    if ctx == "filter_count":
        doc = [target]
        n = len(expect_idx)
        return f"$[?count(@[{sel}]) == {n}]", doc, [((0,), target)]
    if ctx == "filter_value":
        # singular only for an index; for a slice compare the count against a wrong number
        doc = [target]
        n = len(expect_idx)
        return f"$[?count(@[{sel}]) != {n}]", doc, []
    if ctx == "mixed":
        # next to selectors of other kinds that match nothing on an array (and a wildcard after it)
        e = [((i,), target[i]) for i in expect_idx]
        allc = [((i,), target[i]) for i in range(len(target))] if isinstance(target, list) else []
        if isinstance(target, dict):
            allc = [((k,), v) for k, v in target.items()]
            return f"$['zz', {sel}, *]", target, e + allc
        return f"$['a', {sel}, \"0\", ?@ == 'nope', *]", target, e + allc
    if ctx == "multi":
        # the selector twice in one segment: results concatenated, duplicates kept
        e = [((i,), target[i]) for i in expect_idx]
        return f"$[{sel},{sel}]", target, e + e
    raise ValueError(ctx)


def check_case(case):
    kind = case["target"]
    ln = case["len"]
    target = make_target(kind, ln)
    if case["sel"] == "slice":
        start, end, step = case["start"], case["end"], case["step"]
        exp_idx = ref_slice(ln, start, end, step) if kind == "array" else []
    else:
        exp_idx = ref_index(ln, case["index"]) if kind == "array" else []
    query, doc, expected = contexts(case["text"], target, exp_idx, case["ctx"])
    r = impl.run(impl.jp.find, query, doc)
    exp_obs = [[list(loc), impl.jsonable(val)] for loc, val in expected]
    if r[0] != "ok":
        return violation("raised", case, {"query": query, "nodes": exp_obs},
                         {"raised": r[1], "msg": r[3]}, "wrong")
    nodes = r[1]
    got = impl.nodes_obs(nodes)
    if got != exp_obs:
        return violation("wrong-nodelist", case, {"query": query, "nodes": exp_obs},
                         {"nodes": got}, "wrong")
    for n, (loc, val) in zip(nodes, expected):
        if n.value is not val or impl.follow(doc, n.location) is not n.value:
            return violation("wrong-identity", case, {"query": query, "nodes": exp_obs},
                             {"nodes": got, "identity": False}, "wrong")
    return None


def lengths(tier):
    return range(0, 8) if tier == "quick" else range(0, 13)


def shards(tier):
    out = [{"tier": tier, "len": n, "part": "slice"} for n in lengths(tier)]
    out += [{"tier": tier, "len": n, "part": "index"} for n in lengths(tier)]
    out.append({"tier": tier, "len": 3, "part": "nonarray"})
    return out


def run_shard(desc):
    sh = Shard(PROPERTY)
    tier, n = desc["tier"], desc["len"]
    vals = values_for(n)
    ctxs = CONTEXTS(tier)
    spells = SPELLINGS(tier)

    def do(case, nontrivial):
        sh.evaluations += 1
        sh.traces += 1
        if nontrivial:
            sh.nontrivial += 1
        v = check_case(case)
        if v:
            sh.violation(v)
        sh.sample(case)

    if desc["part"] == "slice":
        sh.states += 1  # the length
        for st in vals:
            sh.states += 1
            sh.transitions += 1
            for en in vals:
                sh.states += 1
                sh.transitions += 1
                for sp in vals:
                    sh.states += 1
                    sh.transitions += 1
                    nt = bool(ref_slice(n, st, en, sp))
                    for spelling in spells:
                        for text in slice_texts(st, en, sp, spelling):
                            for ctx in ctxs:
                                do({"sel": "slice", "target": "array", "len": n, "start": st,
                                    "end": en, "step": sp, "text": text, "ctx": ctx}, nt)
    elif desc["part"] == "index":
        sh.states += 1
        for i in vals:
            if i is None:
                continue
            sh.states += 1
            sh.transitions += 1
            nt = bool(ref_index(n, i))
            for ctx in ctxs:
                do({"sel": "index", "target": "array", "len": n, "index": i,
                    "text": str(i), "ctx": ctx}, nt)
    else:
        for kind in ("object", "str", "int", "null", "true", "float", "jsonstr", "jsonobjstr", "emptystr"):
            sh.states += 1
            for st in (None, 0, 1, -1):
                for en in (None, 0, 1, -1, 5):
                    for sp in (None, 1, -1, 2):
                        sh.transitions += 1
                        for text in slice_texts(st, en, sp, "plain"):
                            do({"sel": "slice", "target": kind, "len": 0, "start": st, "end": en,
                                "step": sp, "text": text, "ctx": "root"}, False)
            for i in (0, 1, -1, 2):
                sh.transitions += 1
                do({"sel": "index", "target": kind, "len": 0, "index": i, "text": str(i),
                    "ctx": "root"}, False)
    return sh
