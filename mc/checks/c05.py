"""C05 — validity rules: function well-typedness (RFC 9535 2.4.3), singular
comparands, integer range.

Registry: one probe function for every signature {V,L,N}^n -> {V,L,N}, n <= 2 (39),
plus the built-ins and an unregistered name.  Every function is placed in every
syntactic position with every argument shape; every integer around the configured
bounds is placed in every index / slice slot.
Oracle: compile() returns  <=>  R2.typing says valid;  otherwise a JSONPathError; no
registered function is called during compile().
"""
import itertools

from mc.core import impl
from mc.core.explore import Shard, violation
from mc.ref import abnf
from mc.ref import typing as rt

PROPERTY = "C05"
RULE = (
    "finite product: 39 probe signatures ({V,L,N}^n -> {V,L,N}, n<=2) + built-ins + an "
    "unknown name x 12 syntactic positions x 21 argument shapes per parameter; plus "
    "integers at bound-1/bound/bound+1 for 12 configured ranges (symmetric, asymmetric, one-sided, beyond 2**53; plus the negated bounds) in every index/slice slot "
    "at top level and inside filters; compile() must succeed exactly when the reference "
    "typing judgement says well-typed and in range; non-trivial = ill-typed or out-of-range "
    "inputs (the half of the equivalence tests rarely sample); distinct by construction"
)
ASSUMPTIONS = [
    "oracle = mc/ref/typing.py (RFC 9535 2.4.3 as summarised in DESIGN.md appendix A)",
    "grey-zone inputs are excluded",
]
T = ("V", "L", "N")


def sigs():
    out = {}
    for n in range(3):
        for params in itertools.product(T, repeat=n):
            for ret in T:
                name = "f" + "".join(p.lower() for p in params) + "_" + ret.lower()
                out[name] = (tuple(params), ret)
    return out


SIGS = sigs()
REGISTRY = dict(rt.BUILTINS)
REGISTRY.update(SIGS)

ARG_SHAPES = [
    "1", "'s'", "true", "null", "@", "@.a", "@[0]", "$.a[0]", "@.*", "@..a", "@[0:1]", "@['a','b']",
    "@.a == 1", "@.a && @.b", "!@.a", "(@.a)", "f_v()", "f_l()", "f_n()", "fv_v(1)", "!f_l()",
    # a parenthesised comparand at the start of an argument: outside the grammar in every position
    "(@.a) == 1", "(1) < 2",
]


def positions(call):
    return [
        f"$[?{call}]", f"$[?!{call}]", f"$[?{call} && @.a]", f"$[?@.a || {call}]", f"$[?({call})]",
        f"$[?!({call})]", f"$[?{call} == 1]", f"$[?1 != {call}]", f"$[?{call} < {call}]",
        f"$[?fv_l({call})]", f"$[?fl_l({call})]", f"$[?fn_l({call})]", f"$[?@[?{call}]]",
        f"$[?count(@[?{call}]) == 1]",
        # beside another call that is a valid test on its own; under the other comparison operators
        # next to a logical operator (precedence decides what the comparand is)
        f"$[?f_l() && {call}]", f"$[?{call} || f_n()]", f"$[?@.a && f_l() && {call}]", f"$[?f_l() && ({call})]",
        f"$[?fl_l(f_n() && {call})]", f"$[?@.a && {call} <= 1]", f"$[?{call} >= 2 || @.b]",
    ]


CALLS = {"n": 0}
_ENV = {}


def probe_env(style="item-assignment"):
    """environment with the probe registry (built once per process and style).  style = how the
    registry got there: names assigned one by one into the environment's dict (what the
    documentation shows), the attribute rebound to a new dict after construction, or a subclass
    whose setup_function_extensions() installs a dict of its own"""
    if ("env", style) in _ENV:
        return _ENV[("env", style)]
    from jsonpath_rfc9535 import JSONPathEnvironment
    from jsonpath_rfc9535.function_extensions import ExpressionType, FilterFunction

    tmap = {"V": ExpressionType.VALUE, "L": ExpressionType.LOGICAL, "N": ExpressionType.NODES}

    def make(params, ret):
        class Probe(FilterFunction):
            arg_types = [tmap[p] for p in params]
            return_type = tmap[ret]

            def __call__(self, *a, **k):
                CALLS["n"] += 1
                return False

        return Probe()

    if style == "item-assignment":
        env = JSONPathEnvironment()
        for name, (params, ret) in SIGS.items():
            env.function_extensions[name] = make(params, ret)
    elif style == "rebound":
        env = JSONPathEnvironment()
        env.function_extensions = dict(env.function_extensions,
                                       **{name: make(params, ret) for name, (params, ret) in SIGS.items()})
    else:
        class OwnRegistry(JSONPathEnvironment):
            def setup_function_extensions(self):
                std = JSONPathEnvironment().function_extensions
                self.function_extensions = {name: make(params, ret) for name, (params, ret) in SIGS.items()}
                self.function_extensions.update(std)

        env = OwnRegistry()
    _ENV[("env", style)] = env
    return env


def range_env(lo, hi, how="subclass"):
    """the range configured on a subclass, or assigned on a plain instance"""
    key = ("r", lo, hi, how)
    if key not in _ENV:
        from jsonpath_rfc9535 import JSONPathEnvironment

        if how == "subclass":
            class E(JSONPathEnvironment):
                min_int_index = lo
                max_int_index = hi

            _ENV[key] = E()
        else:
            e = JSONPathEnvironment()
            e.min_int_index = lo
            e.max_int_index = hi
            _ENV[key] = e
    return _ENV[key]


RANGES = [(rt.MINI, rt.MAXI), (-3, 3), (0, 0), (-3, 10), (-10, 3), (0, 5), (-5, 0), (2, 7), (-7, -2),
          # ranges reaching beyond 2**53: the literal must be compared exactly, not through a float
          (-(2**53) - 2, 2**53 + 2), (-(10**18), 10**18), (-(2**63), 2**63 - 1)]


def range_queries(i):
    return [f"$[{i}]", f"$[{i}:]", f"$[:{i}]", f"$[::{i}]", f"$[1:2:{i}]", f"$[{i},0]", f"$.a[{i}]", f"$..[{i}]",
            f"$[?@[{i}]]", f"$[?@[{i}:]]", f"$[?@[{i}] == 1]", f"$[?count(@[:{i}]) == 1]", f"$[?$[{i}]]",
            f"$[?@[?@[{i}]]]"]


def BOUNDS(tier):
    return {"signatures": len(SIGS), "positions": len(positions("x")), "argument_shapes": len(ARG_SHAPES),
            "ranges": [list(r) for r in RANGES], "range_query_shapes": len(range_queries(0))}


def shards(tier):
    out = [{"part": "fn", "name": name} for name in sorted(SIGS)]
    out += [{"part": "builtin"}, {"part": "range"}, {"part": "arity"}]
    out += [{"part": "fresh", "name": name} for name in sorted(rt.BUILTINS)]
    out += [{"part": "registry_styles", "style": st} for st in ("rebound", "own-dict")]
    return out


def judge(text, verdict, outcome, calls):
    if verdict.cls == "grey":
        return None
    case = {"query": text}
    if calls:
        return violation("function-called-during-compile", case, 0, calls, "called")
    if verdict.cls == "valid":
        if outcome[0] != "ok":
            return violation("rejected-well-typed", case, "compiles",
                             {"raised": outcome[1], "msg": outcome[3]}, "rejected")
    else:
        if outcome[0] == "ok":
            return violation("accepted-invalid", case, {"raises": "JSONPathError", "why": verdict.why},
                             "accepted", "accepted")
        if not outcome[2]:
            return violation("wrong-exception", case, "JSONPathError", {"raised": outcome[1]}, "crash")
    return None


def check_one(text, lo=None, hi=None, how="subclass"):
    if how == "fresh":
        # a new plain environment for this one query: it is the first query the environment ever sees
        verdict = rt.classify(text)
        env = impl.jp.JSONPathEnvironment()
    elif how in ("rebound", "own-dict"):
        verdict = rt.classify(text, registry=REGISTRY)
        env = probe_env(how)
    elif lo is None:
        verdict = rt.classify(text, registry=REGISTRY)
        env = probe_env()
    else:
        verdict = rt.classify(text, imin=lo, imax=hi)
        env = range_env(lo, hi, how)
    before = CALLS["n"]
    outcome = impl.run(env.compile, text)
    v = judge(text, verdict, outcome, CALLS["n"] - before)
    if v is not None:
        if how in ("fresh", "rebound", "own-dict"):
            v["case"]["configured"] = how
        elif lo is not None:
            v["case"]["range"] = [lo, hi]
            if how != "subclass":
                v["case"]["configured"] = how
        if verdict.cls != "grey" and abnf.in_language(text) != (verdict.cls in ("valid", "ill-typed")):
            raise AssertionError(f"R1/R2 disagree on {text!r}: {verdict}")
    return v, verdict


def check_case(case):
    r = case.get("range")
    v, _ = check_one(case["query"], *(r or (None, None)), how=case.get("configured", "subclass"))
    return v


def run_shard(desc):
    sh = Shard(PROPERTY)

    def do(text, lo=None, hi=None, how="subclass"):
        sh.states += 1
        sh.transitions += 1
        sh.traces += 1
        sh.evaluations += 1
        v, verdict = check_one(text, lo, hi, how)
        sh.bump("class_" + verdict.cls)
        if verdict.cls in ("ill-typed", "outside"):
            sh.nontrivial += 1
        if v:
            sh.violation(v)
        sh.sample({"query": text, "reference": verdict.cls, "why": verdict.why}, limit=2)

    part = desc["part"]
    if part == "fn":
        name = desc["name"]
        params, _ = SIGS[name]
        for args in itertools.product(ARG_SHAPES, repeat=len(params)):
            call = f"{name}({', '.join(args)})"
            for q in positions(call):
                do(q)
    elif part == "builtin":
        for name, (params, _) in rt.BUILTINS.items():
            for args in itertools.product(ARG_SHAPES, repeat=len(params)):
                call = f"{name}({','.join(args)})"
                for q in positions(call):
                    do(q)
        for args in ([], ["1"], ["@.a"], ["@.*", "1"]):
            for q in positions(f"nosuch({','.join(args)})"):
                do(q)
    elif part == "registry_styles":
        # the same judgement when the registry was installed by rebinding the attribute / by a subclass
        # that builds a dict of its own: one-parameter probes and the standard functions
        names = [n for n, (params, _) in sorted(SIGS.items()) if len(params) <= 1] + ["length", "count", "value"]
        for name in names:
            params, _ = REGISTRY[name]
            for args in itertools.product(ARG_SHAPES, repeat=len(params)):
                for q in positions(f"{name}({', '.join(args)})"):
                    do(q, how=desc["style"])
        for q in ("$[?match(@.a, 'x') == true]", "$[?match((@.a), 'x')]", "$[?search(@.a, 1)]", "$[?nosuch(@.a)]"):
            do(q, how=desc["style"])
    elif part == "fresh":
        # the standard functions again, every query on an environment of its own (whatever an
        # environment prepares lazily on first use must not let the first query through unchecked)
        name = desc["name"]
        params, _ = rt.BUILTINS[name]
        for args in itertools.product(ARG_SHAPES, repeat=len(params)):
            call = f"{name}({','.join(args)})"
            for q in positions(call):
                do(q, how="fresh")
        for n in range(0, 4):
            if n != len(params):
                for shape in ("1", "@.a", "(@.a)", "!@.a"):
                    for q in positions(f"{name}({', '.join([shape] * n)})")[:4]:
                        do(q, how="fresh")
    elif part == "arity":
        for name, (params, _) in sorted(REGISTRY.items()):
            for n in range(0, 4):
                if n == len(params):
                    continue
                for shape in ("1", "@.a", "@.*", "!@.a", "(@.a == 1)"):
                    call = f"{name}({', '.join([shape] * n)})"
                    for q in positions(call)[:7]:
                        do(q)
                    if n >= 2 and shape in ("!@.a", "(@.a == 1)"):
                        # plain arguments first, the surplus one is a logical expression
                        call = f"{name}({', '.join(['@.a'] * (n - 1) + [shape])})"
                        for q in positions(call)[:3]:
                            do(q)
        # comparisons between every pair of operand shapes (singular comparands only)
        ops = ["1", "'s'", "null", "@", "@.a", "@[0]", "$.a[0]", "@.*", "@..a", "@[0:1]", "@['a','b']",
               "@[?@.a]", "$", "f_v()", "f_l()", "f_n()", "length(@)", "count(@.*)", "value(@.*)",
               "match(@, 'a')"]
        for a in ops:
            for b in ops:
                for op in ("==", "<"):
                    do(f"$[?{a} {op} {b}]")
    else:
        for lo, hi in RANGES:
            ints = sorted({lo - 1, lo, lo + 1, hi - 1, hi, hi + 1, 0, 1, -1, -lo, -hi, -lo - 1, -hi - 1, -lo + 1,
                           -hi + 1})
            for i in ints:
                for q in range_queries(i):
                    do(q, lo, hi)
                    if (lo, hi) != RANGES[0]:
                        do(q, lo, hi, "instance")
    return sh
