"""C04 — every string outside the RFC 9535 grammar is rejected by compile().

Space: `$` followed by every token string of length <= 4 (quick) / 5 (thorough) over a
33-token alphabet; every token string of length <= 2 without the leading `$`; every
single-character deletion / insertion / replacement / transposition of every query
of a 190-query valid corpus.
Oracle: R2 says `outside` (and R1, the generic ABNF engine, agrees) => compile() must
raise a JSONPathError.
"""
from mc.checks import lang
from mc.core.explore import Shard, violation

PROPERTY = "C04"
RULE = (
    "exhaustive enumeration of `$`.T^<=k over a 33-token alphabet (k=4 quick, 5 thorough), "
    "T^<=2 without `$`, all single-edit neighbours of a 190-query valid corpus and every corpus query with one token (every ordered token pair in thorough) inserted at every position; "
    "each string is classified by the reference recogniser and given to compile(); "
    "non-trivial = the string is outside the grammar (the property's domain); distinct by "
    "construction within a space"
)
ASSUMPTIONS = [
    "oracle = R2 recogniser; every reported string is re-checked with the independent ABNF engine R1",
    "grey-zone strings (DESIGN.md section 6) are neither required to be accepted nor rejected",
]


def BOUNDS(tier):
    return {"token_alphabet": lang.NT, "max_tokens_after_root": lang.tok_depth(tier),
            "edit_alphabet": 40, "corpus_queries": 190}


def shards(tier):
    return lang.shards(tier)


def judge(text, verdict, outcome):
    if verdict.cls == "outside" and outcome[0] == "ok":
        return violation("accepted-outside-grammar", {"query": text},
                         {"raises": "JSONPathError", "why": verdict.why}, "accepted", "accepted")
    if verdict.cls == "outside" and outcome[0] == "err" and not outcome[2]:
        return violation("rejected-with-foreign-exception", {"query": text},
                         {"raises": "JSONPathError", "why": verdict.why}, {"raised": outcome[1]}, "crash")
    return None


def check_case(case):
    from mc.ref import typing as rt
    text = case["query"]
    return judge(text, rt.classify(text), lang.compile_outcome(text))


def run_shard(desc):
    sh = Shard(PROPERTY)
    lang.explore(sh, desc, judge, r1_all=(desc["space"] in ("tok_short", "tok_noroot")))
    sh.nontrivial = sh.extra.get("class_outside", 0)
    sh.sample({"space": desc, "example": next(iter(lang.strings_of(desc)))}, limit=1)
    return sh
