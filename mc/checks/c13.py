"""C13 — compile() and find() are total: they return or raise a JSONPathError.

Spaces: the shared string enumerations (token strings, single-edit neighbours and
all prefixes of the corpus); scaling families that push every nesting construct to
depth 32 and every repeatable construct to 1024 characters; numbers with extreme
exponents.  Every query that compiles is evaluated on every JSON kind as root, as the
single element of an array and as the single member of an object.  Each call runs under a watchdog.
Oracle: outcome is a return value or an instance of JSONPathError whose str()/repr()
can be produced; anything else (other exception types, RecursionError, timeout) is the
violation.  Runs with the interpreter's default recursion limit (1000).
"""
import sys

from mc.checks import lang
from mc.core import impl
from mc.core.explore import CaseTimeout, Shard, violation, with_timeout
from mc.gen import docs as gdocs
from mc.gen import strings as gs

PROPERTY = "C13"
RULE = (
    "every string of: `$`.T^<=k token strings, single-edit neighbours and prefixes of the "
    "190-query corpus, scaling families (10 nesting constructs x depth 1..32 plus unbalanced "
    "variants, 14 repeatable constructs x lengths 1,2,3,4,8,...,1024 chars, 40 extreme numbers), 6 function names x 0..3 arguments over 7 argument shapes x 4 positions; "
    "compile() under a watchdog; every compiled query is applied to 47 JSON kinds x 3 "
    "placements; non-trivial = strings that are not valid queries (error paths) "
    "plus every evaluation of a compiled query; distinct by construction"
)
ASSUMPTIONS = [
    "interpreter recursion limit is the CPython default (1000) while the code under test runs",
    "watchdog: 10 s per compile/find call",
]
TIMEOUT = 10.0


def BOUNDS(tier):
    return {"token_alphabet": lang.NT, "max_tokens_after_root": lang.tok_depth(tier), "max_nesting": 32,
            "max_length_chars": 1024, "kinds": len(gdocs.kinds()), "placements": ["root", "[x]", "{'a': x}"]}


def nestings(d):
    o, c = "(" * d, ")" * d
    yield f"$[?{o}@.a{c}]"
    yield f"$[?{o}@.a == 1{c}]"
    yield "$[?" + "@[?" * d + "@.a" + "]" * d + "]"
    yield "$[?" + "length(" * d + "@" + ")" * d + " == 1]"
    yield "$[?" + "count(@[?" * d + "@" + "]) == 1" * d + "]"
    yield "$[?@" + "[0]" * d + "]"
    yield "$[?" + "!(" * d + "@.a" + ")" * d + "]"
    yield "$[?" + "!" * d + "@.a]"
    yield "$" + "[?@" * d + "]" * d
    yield "$" + "[" * d + "0" + "]" * d
    # unbalanced variants
    yield f"$[?{o}@.a]"
    yield f"$[?@.a{c}]"
    yield "$[?" + "@[?" * d + "@.a"
    yield "$[?" + "length(" * d + "@"
    yield "$" + "[" * d
    yield "$" + "]" * d


def lengths():
    return [1, 2, 3, 4, 8, 16, 32, 64, 128, 256, 512, 1024]


def repeats(n):
    """constructs repeated until about n characters"""
    def rep(unit):
        return unit * max(1, n // len(unit))
    yield "$" + rep(".a")
    yield "$" + rep("[0]")
    yield "$" + rep("..a")
    yield "$" + rep("[*]")
    yield "$[" + ",".join(["0"] * max(1, n // 2)) + "]"
    yield "$[" + "1" * n + "]"
    yield "$[?@ == " + "1" * n + "]"
    yield "$[?@ == 1." + "0" * n + "1]"
    yield "$." + "a" * n
    yield "$" + " " * n + ".a"
    yield "$[" + " " * n + "0" + "\n" * n + "]"
    yield "$[?" + " && ".join(["@.a"] * max(1, n // 7)) + "]"
    yield "$[?" + " || ".join(["@.a"] * max(1, n // 7)) + "]"
    yield "$[?" + " && ".join(["@.a == 1"] * max(1, n // 12)) + "]"
    # the shortest operands there are: the most operands a query of n characters can chain
    yield "$[?" + "&&".join(["@"] * max(1, (n - 4) // 3 + 1)) + "]"
    yield "$[?" + "||".join(["$"] * max(1, (n - 4) // 3 + 1)) + "]"
    yield "$[?" + "&&".join(["@", "!@"] * max(1, (n - 4) // 7 + 1)) + "]"
    yield "$[?" + "||".join(["1<2"] * max(1, (n - 4) // 5 + 1)) + "]"
    yield "$[?@.a == '" + "x" * n + "']"
    yield "$['" + "\\u0041" * max(1, n // 6) + "']"
    yield "$[?" + "!" .join(["@.a"] * max(1, n // 4)) + "]"
    yield "$[" + ":" * n + "]"
    yield "$[?@.a" + " == 1" * max(1, n // 5) + "]"
    yield "$[?" + ",".join(["?@.a"] * max(1, n // 5))[1:] + "]"


def numbers():
    for m in ("1", "-1", "0", "1.5", "-0", "9" * 20, "0." + "0" * 30 + "1"):
        for e in ("", "e1", "e-1", "e308", "e309", "e-308", "e-324", "e-400", "e400", "E+400",
                  "e1000000000", "e-1000000000", "e" + "9" * 30):
            yield f"$[?@ == {m}{e}]"
            yield f"$[?{m}{e} < @]"
    for i in ("9" * 16, "9" * 40, "-" + "9" * 40, "1e2", "1.0", "-", "+1"):
        yield f"$[{i}]"
        yield f"$[:{i}]"
        yield f"$[::{i}]"


def shards(tier):
    out = lang.shards(tier, with_prefixes=True)
    out += [{"space": "nest", "d": d} for d in range(1, 33)]
    out += [{"space": "rep", "n": n} for n in lengths()]
    out.append({"space": "num"})
    out += [{"space": "calls", "name": n} for n in CALL_NAMES]
    return out


CALL_NAMES = ["length", "count", "match", "search", "value", "nosuch"]
CALL_SHAPES = ["1", "'s'", "@.a", "@.*", "!@.a", "(@.a == 1)", "count(@.*)"]


def calls(name):
    """every call of a built-in (or unknown) function with 0..3 arguments over 7 argument shapes,
    well-typed or not, in test / negated / compared / nested position"""
    import itertools
    for n in range(0, 4):
        for args in itertools.product(CALL_SHAPES, repeat=n):
            call = f"{name}({', '.join(args)})"
            yield f"$[?{call}]"
            yield f"$[?!{call} || @.a]"
            yield f"$[?{call} == 1]"
            yield f"$[?length({call}) < 2 && count(@[?{call}]) > 0]"


def strings_of(desc):
    sp = desc["space"]
    if sp == "nest":
        yield from nestings(desc["d"])
    elif sp == "rep":
        yield from repeats(desc["n"])
    elif sp == "num":
        yield from numbers()
    elif sp == "calls":
        yield from calls(desc["name"])
    else:
        yield from lang.strings_of(desc)


def guarded(fn, *args):
    """-> ("ok", value) | ("jp", cls) | ("bad", description)"""
    try:
        return ("ok", with_timeout(fn, TIMEOUT, *args))
    except impl.JSONPathError as e:
        try:
            s = str(e)
            r = repr(e)
            del s, r
        except Exception as e2:  # noqa: BLE001
            return ("bad", f"str/repr of {type(e).__name__} raised {type(e2).__name__}")
        return ("jp", type(e).__name__)
    except CaseTimeout:
        return ("bad", "timeout")
    except RecursionError:
        return ("bad", "RecursionError")
    except Exception as e:  # noqa: BLE001
        return ("bad", type(e).__name__)


PAIRS = [
    ({"x": 1}, {"y": 1}), ({"x": 1, "y": 2}, {"x": 1, "z": 2}), ({"x": None}, {"y": None}), ([{"x": 1}], [{"y": 1}]),
    ({"x": 1}, {"x": 1}), ([1, 2], [1]), ("a", 1), (None, {}), ([], {}), ({"k": {"x": 1}}, {"k": {"y": 1}}), (1, True),
    ({"p": "a", "b": "."}, {"p": "[", "b": 1}),
]


def placements(kinds):
    for k in kinds:
        yield k
        yield [k]
        yield {"a": k}
    # two members / elements of different shapes side by side (comparisons and functions that
    # take their second operand from the document)
    for x, y in PAIRS:
        yield [{"a": x, "b": y}, {"a": y, "b": x}]
        yield {"a": x, "b": y, "p": y, "s": x}


def check_query(text, kinds, sh=None):
    """-> violation | None"""
    r = guarded(impl.jp.compile, text)
    if r[0] == "bad":
        return violation("compile-not-total", {"query": text}, "returns or raises JSONPathError", r[1], "crash")
    if r[0] != "ok":
        # the same rejected text handed to the same (default) environment again, through find():
        # rejected again, with a JSONPathError
        r2 = guarded(impl.jp.find, text, 1)
        if r2[0] == "bad":
            return violation("find-not-total", {"query": text, "second_submission": True},
                             "raises JSONPathError again", r2[1], "crash")
        if r2[0] == "ok":
            return violation("find-not-total", {"query": text, "second_submission": True},
                             "raises JSONPathError again", "accepted the second time", "crash")
        return None
    q = r[1]
    if not hasattr(q, "find"):
        return violation("compile-not-total", {"query": text}, "returns a compiled query or raises JSONPathError",
                         "returned " + type(q).__name__, "crash")
    for i, doc in enumerate(placements(kinds)):
        f = guarded(q.find, doc)
        if sh is not None:
            sh.evaluations += 1
            sh.nontrivial += 1
        if f[0] == "bad":
            return violation("find-not-total", {"query": text, "doc": impl.jsonable(doc)},
                             "returns or raises JSONPathError", f[1], "crash")
    return None


def check_case(case):
    old = sys.getrecursionlimit()
    sys.setrecursionlimit(1000)
    try:
        if case.get("second_submission"):
            return check_query(case["query"], [])
        if "doc" in case:
            r = guarded(impl.jp.compile, case["query"])
            if r[0] == "bad":
                return violation("compile-not-total", {"query": case["query"]}, "", r[1], "crash")
            if r[0] != "ok":
                return None
            f = guarded(r[1].find, impl.unjsonable(case["doc"]))
            if f[0] == "bad":
                return violation("find-not-total", case, "returns or raises JSONPathError", f[1], "crash")
            return None
        return check_query(case["query"], gdocs.kinds())
    finally:
        sys.setrecursionlimit(old)


def run_shard(desc):
    sh = Shard(PROPERTY)
    old = sys.getrecursionlimit()
    sys.setrecursionlimit(1000)
    kinds = gdocs.kinds()
    first = None
    try:
        for text in strings_of(desc):
            if first is None:
                first = text
            sh.states += 1
            sh.transitions += 1
            sh.traces += 1
            sh.evaluations += 1
            before = sh.evaluations
            v = check_query(text, kinds, sh)
            if sh.evaluations == before:
                sh.nontrivial += 1  # did not compile: an error path was exercised
            if v:
                sh.violation(v)
    finally:
        sys.setrecursionlimit(old)
    sh.sample({"space": desc, "first_string": first[:200] if first else None}, limit=1)
    return sh
