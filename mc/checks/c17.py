"""C17 — nondeterministic mode only ever produces orderings RFC 9535 allows, and
produces all of them.

The whole tree of random choices of find() on a `nondeterministic = True` environment
is explored (mc/sched/choice.py replaces the name `random` inside
jsonpath_rfc9535.segments / .selectors by an enumerating chooser; depth-first, one
execution per leaf, prefix replay).  Inputs: 10 queries x 7 documents with objects of 3-5
members (every permutation of the members must be producible); 12 queries x all JSON trees with <= 5
(quick) / <= 6 (thorough) nodes, plus the repository's nondeterminism cases.
Oracle: R3's permitted set P(q, d).  Validity: every leaf result is in P.
Exhaustiveness: the union of the leaf results equals P.
"""
import json
import os

from mc.core import impl
from mc.core.explore import Shard, violation
from mc.gen import docs as gdocs
from mc.ref import eval as ev
from mc.ref import typing as rt
from mc.sched import choice

PROPERTY = "C17"
RULE = (
    "for every (query, document) input the complete choice tree of the evaluator's random "
    "decisions is enumerated (one real find() per leaf); every leaf result must be a member of "
    "the reference model's permitted set and the set of leaf results must equal it; inputs = 12 "
    "queries x all JSON trees with <=5/6 nodes, plus 4 descendant queries x all array-only container skeletons with <=7/8 nodes; non-trivial = inputs whose permitted set has "
    "more than one ordering; distinct by construction"
)
ASSUMPTIONS = [
    "every random decision of the evaluator goes through the module-level name `random` of jsonpath_rfc9535.segments / .selectors (verified: a leaf replayed twice gives the same result, divergence is a hard error)",
    "random.sample() outcomes are enumerated up to identity of the sampled objects",
    "oracle = Permitted evaluator of mc/ref/eval.py, checked against the repository's 10 nondeterminism cases in the self-test",
]
QUERIES = ["$..*", "$..[*]", "$.*", "$[?@]", "$..a", "$..[0]", "$..[*,*]", "$..*.*", "$.*..*", "$..[?@]",
           "$.*[?@]", "$..['a','b']"]
CAP = 150000


def BOUNDS(tier):
    return {"queries": QUERIES, "max_nodes_per_document": 5 if tier == "quick" else 6,
            "execution_cap_per_input": CAP,
            "skeletons_fully_explored_up_to_containers": 6 if tier == "quick" else 7,
            "larger_skeletons_cap": 4000 if tier == "quick" else 20000}


_ENV = {}


def env():
    if "e" not in _ENV:
        from jsonpath_rfc9535 import JSONPathEnvironment

        class NDEnv(JSONPathEnvironment):
            nondeterministic = True

        _ENV["e"] = NDEnv()
    return _ENV["e"]


def modules():
    from jsonpath_rfc9535 import segments, selectors
    return [segments, selectors]


_DOCS = {}


def get_docs(n):
    if n not in _DOCS:
        _DOCS[n] = gdocs.docs(n)
    return _DOCS[n]


def shards(tier):
    n = 5 if tier == "quick" else 6
    total = len(get_docs(n))
    step = 200 if tier == "quick" else 500
    out = [{"part": "trees", "n": n, "lo": lo, "hi": min(lo + step, total)} for lo in range(0, total, step)]
    out.append({"part": "fixtures"})
    out += [{"part": "wide", "i": i} for i in range(len(WIDE_DOCS))]
    out += [{"part": "dup", "i": i} for i in range(len(DUP_DOCS))]
    out += [{"part": "dag", "i": i} for i in range(len(dag_docs()))]
    out += [{"part": "history", "q": qi} for qi in range(len(HIST_QUERIES))]
    out += [{"part": "rootref", "q": qi} for qi in range(len(ROOTREF_QUERIES))]
    sk = skeletons(7 if tier == "quick" else 8)
    out += [{"part": "skeleton", "lo": lo, "hi": min(lo + 4, len(sk)), "max": 7 if tier == "quick" else 8,
             "full": 6 if tier == "quick" else 7, "cap": 4000 if tier == "quick" else 20000}
            for lo in range(0, len(sk), 4)]
    return out


WIDE_DOCS = [
    {"a": 1, "b": 2, "c": 3}, {"a": 1, "b": 2, "c": 3, "d": 4}, {"a": 0, "b": None, "c": False, "d": "", "e": []},
    [{"a": 1, "b": 2, "c": 3}, {"x": 1, "y": 2, "z": 3}], {"k": {"a": 1, "b": [2], "c": 3}, "l": 0},
    {"a": {"p": 1, "q": 2, "r": 3}, "b": [0]}, {"a": [1, 2], "b": [3], "c": [4, [5]]},
]
WIDE_QUERIES = ["$.*", "$[*]", "$[?@]", "$[?@ != 2]", "$..*", "$[*][*]", "$.*.*", "$..[?@]", "$[*, *]", "$[?@, *]",
                # a filter nested in a filter, then a shuffled selector: the mode stays on after a nested filter
                "$[?@[?@]][*]", "$[?@[?@ != 2] || @ == 0].*"]
# the same node reached twice: every occurrence shuffles independently
DUP_DOCS = [{"a": {"x": 1, "y": 2}}, [{"x": 1, "y": 2}], {"a": {"x": 1, "y": 2}, "b": {"z": 3, "w": 4}},
            {"a": [{"p": 1, "q": 2}]}]
DUP_QUERIES = ["$['a','a'][*]", "$[0,0][*]", "$[*,*][*]", "$['a','a'][?@]", "$[0,-1].*", "$['a','b','a'].*",
               "$..[*][*]", "$['a','a'][*][*]", "$.a[0,0].*", "$['a','a']..*"]
# values whose containers are reachable along several paths (shared, not cyclic)
def dag_docs():
    s1 = [1]
    s2 = {"k": [2]}
    return [{"a": s1, "b": s1}, [s1, s1], {"a": {"k": s1}, "b": [s1]}, {"p": s2, "q": s2}, [s2, {"r": s2}]]


DAG_QUERIES = ["$..*", "$..[*]", "$..[0]", "$..k", "$.*", "$..[?@]"]
# `$` inside a filter below / behind a descendant segment, matches three and more levels down
ROOTREF_DOC = {"wanted": 2, "a": {"b": {"id": 2, "c": {"id": 2}}}, "l": [{"id": 1}, {"id": 2}]}
ROOTREF_QUERIES = ["$..[?@.id == $.wanted]", "$..b[?@.id == $.wanted]", "$..*[?@ == $.wanted]", "$.a..[?@.id == $.wanted].id"]
_SK = {}


def skeletons(nmax):
    """all list-only trees (every node an array, childless arrays hold one scalar) with <= nmax nodes:
    pure container skeletons, deep enough to separate visit orders of a descendant segment"""
    if nmax in _SK:
        return _SK[nmax]
    import functools

    @functools.lru_cache(maxsize=None)
    def forests(n):
        # all sequences of trees with n nodes in total
        if n == 0:
            return ((),)
        out = []
        for first in range(1, n + 1):
            for t in trees(first):
                for rest in forests(n - first):
                    out.append((t,) + rest)
        return tuple(out)

    @functools.lru_cache(maxsize=None)
    def trees(n):
        return tuple(f for f in forests(n - 1))

    def build(t):
        # a childless container holds one scalar so that the moment it is visited is observable
        return [build(c) for c in t] if t else [0]

    out = []
    for n in range(1, nmax + 1):
        out += [build(t) for t in trees(n)]
    _SK[nmax] = out
    return out


def compiled(query, flag="subclass"):
    """how the flag is switched on: by subclassing, or on a plain instance before / after compile"""
    if flag == "subclass":
        return env().compile(query)
    from jsonpath_rfc9535 import JSONPathEnvironment
    e = JSONPathEnvironment()
    if flag == "instance-before-compile":
        e.nondeterministic = True
        return e.compile(query)
    if flag == "instance-after-others-compiled-it":
        # the same text was compiled before by other (deterministic) environments of the same class,
        # the module-level default environment included
        JSONPathEnvironment().compile(query)
        impl.jp.compile(query)
        e.nondeterministic = True
        return e.compile(query)
    cq = e.compile(query)
    e.nondeterministic = True
    return cq


def explore_input(query, doc, cap=CAP, flag="subclass"):
    """-> (results:set, executions, capped, first invalid (trace, result) | None, P)"""
    v = rt.classify(query)
    assert v.cls == "valid"
    P = ev.permitted(v.ast, doc)
    cq = compiled(query, flag)
    results = set()
    invalid = None
    with choice.controlled(modules()) as ctl:
        def run():
            try:
                return tuple(n.location for n in cq.find(doc))
            except choice.Divergence:
                raise
            except Exception as e:  # noqa: BLE001  (an exception is an outcome, and not a permitted one)
                return (("raised", type(e).__name__),)
        capped = False
        for trace, res in ctl.explore(run, max_executions=cap):
            results.add(res)
            if res not in P and invalid is None:
                invalid = ([a for a, _ in trace], res)
        if ctl.executions >= cap:
            capped = True
        return results, ctl.executions, capped, invalid, P, ctl.points


# ---- histories on ONE compiled query in nondeterministic mode: an application that was not run to
# its end (find_one, an abandoned iterator) must leave nothing behind for the next application
HIST_QUERIES = ["$..b", "$..*", "$..[*]", "$.*", "$[?@..b]", "$..[?@]"]
HIST_DOC1 = {"a": {"b": 1, "c": [3]}, "c": [2, {"b": 4}]}
HIST_DOC2 = {"x": [1, {"b": 2}], "b": 0}
HIST_PRE = ["find_one", "partial_1", "partial_2", "find_one_twice", "full", "interleaved"]


def _history_run(cq, pre):
    try:
        return _history_run_inner(cq, pre)
    except choice.Divergence:
        raise
    except Exception as e:  # noqa: BLE001
        return (("raised", type(e).__name__),)


def _history_run_inner(cq, pre):
    if pre == "interleaved":
        # two live iterators of the one compiled query, advanced in turns; the observation is what the
        # iterator over HIST_DOC2 yields
        a, b = iter(cq.finditer(HIST_DOC1)), iter(cq.finditer(HIST_DOC2))
        out = []
        live_a = live_b = True
        while live_a or live_b:
            if live_a:
                live_a = next(a, None) is not None
            if live_b:
                n = next(b, None)
                if n is None:
                    live_b = False
                else:
                    out.append(n.location)
        return tuple(out)
    if pre.startswith("find_one"):
        for _ in range(2 if pre.endswith("twice") else 1):
            cq.find_one(HIST_DOC1)
    elif pre.startswith("partial"):
        it = iter(cq.finditer(HIST_DOC1))
        for _ in range(int(pre[-1])):
            next(it, None)
        del it
    else:
        cq.find(HIST_DOC1)
    try:
        return tuple(n.location for n in cq.find(HIST_DOC2))
    except choice.Divergence:
        raise
    except Exception as e:  # noqa: BLE001
        return (("raised", type(e).__name__),)


def check_history(query, pre, sh=None, answers=None):
    """-> violation | None: every outcome of the random choices of the WHOLE history must leave the
    second application with one of the orderings permitted for its own document"""
    P = ev.permitted(rt.classify(query).ast, HIST_DOC2)
    case = {"history_query": query, "before": pre}
    cq = compiled(query)
    with choice.controlled(modules()) as ctl:
        if answers is not None:
            ctl.chooser.start(answers)
            try:
                res = _history_run(compiled(query), pre)
            except choice.Divergence as e:
                return violation("invalid-ordering", dict(case, choices=answers), "replayable", {"divergence": str(e)}, "invalid-order")
            if res not in P:
                return violation("invalid-ordering", dict(case, choices=answers), {"permitted_orderings": len(P)},
                                 {"result": [list(x) for x in res]}, "invalid-order")
            return None
        bad = None
        seen = set()
        for trace, res in ctl.explore(lambda: _history_run(compiled(query), pre), max_executions=60000):
            seen.add(res)
            if res not in P:
                bad = violation("invalid-ordering", dict(case, choices=[a for a, _ in trace]),
                                {"permitted_orderings": len(P)}, {"result": [list(x) for x in res]}, "invalid-order")
                break
        if sh is not None:
            sh.states += ctl.points + ctl.executions
            sh.transitions += ctl.points
            sh.traces += ctl.executions
            sh.evaluations += ctl.executions
            sh.nontrivial += 1
            if ctl.executions >= 60000:
                sh.bump("inputs_capped_not_exhaustive")
        if bad is None and ctl.executions < 60000 and seen != P:
            missing = sorted(P - seen)
            bad = violation("not-exhaustive", case, {"permitted_orderings": len(P)},
                            {"produced": len(seen), "missing_example": [list(x) for x in missing[0]]},
                            f"missing:{len(missing)}/{len(P)}")
        return bad


def replay_choices(query, doc, answers, flag="subclass"):
    cq = compiled(query, flag)
    with choice.controlled(modules()) as ctl:
        ctl.chooser.start(answers)
        try:
            return tuple(n.location for n in cq.find(doc))
        except choice.Divergence:
            raise
        except Exception as e:  # noqa: BLE001
            return (("raised", type(e).__name__),)


def check_input(query, doc, sh=None, cap=CAP, flag="subclass"):
    results, execs, capped, invalid, P, points = explore_input(query, doc, cap=cap, flag=flag)
    if sh is not None:
        sh.states += points + execs
        sh.transitions += points
        sh.traces += execs
        sh.evaluations += execs
        if len(P) > 1:
            sh.nontrivial += 1
        if capped:
            sh.bump("inputs_capped_not_exhaustive")
        sh.bump("distinct_leaf_results", len(results))
        sh.bump("permitted_orderings", len(P))
    out = []
    jd = impl.jsonable(doc)
    extra = {} if flag == "subclass" else {"flag": flag}
    if invalid is not None:
        answers, res = invalid
        out.append(violation("invalid-ordering", dict({"query": query, "doc": jd, "choices": answers}, **extra),
                             {"permitted_orderings": len(P), "example": [list(x) for x in sorted(P)[0]]},
                             {"result": [list(x) for x in res]}, "invalid-order"))
    if not capped and results != P and results <= P:
        missing = sorted(P - results)
        out.append(violation("not-exhaustive", dict({"query": query, "doc": jd}, **extra),
                             {"permitted_orderings": len(P)},
                             {"produced": len(results), "missing_example": [list(x) for x in missing[0]]},
                             f"missing:{len(missing)}/{len(P)}"))
    return out


def check_case(case):
    if "history_query" in case:
        return check_history(case["history_query"], case["before"], answers=case.get("choices"))
    if "dag_doc" in case:
        case = dict(case)
        i = case.pop("dag_doc")
        return _check_case(case, dag_docs()[i])
    return _check_case(case, None)


def _check_case(case, doc_override):
    doc = doc_override if doc_override is not None else impl.unjsonable(case["doc"])
    if "choices" in case:
        v = rt.classify(case["query"])
        P = ev.permitted(v.ast, doc)
        try:
            res = replay_choices(case["query"], doc, case["choices"], case.get("flag", "subclass"))
        except choice.Divergence as e:
            return violation("invalid-ordering", case, "replayable", {"divergence": str(e)}, "invalid-order")
        if res not in P:
            return violation("invalid-ordering", case, {"permitted_orderings": len(P)},
                             {"result": [list(x) for x in res]}, "invalid-order")
        return None
    for v in check_input(case["query"], doc, flag=case.get("flag", "subclass")):
        if v["kind"] == "not-exhaustive":
            return v
    return None


def run_shard(desc):
    sh = Shard(PROPERTY)
    if desc["part"] == "trees":
        docs = get_docs(desc["n"])[desc["lo"]:desc["hi"]]
        for doc in docs:
            for q in QUERIES:
                for v in check_input(q, doc, sh):
                    sh.violation(v)
        sh.sample({"query": QUERIES[1], "doc": impl.jsonable(docs[-1])}, limit=1)
    elif desc["part"] == "wide":
        doc = WIDE_DOCS[desc["i"]]
        for q in WIDE_QUERIES:
            if ".." in q and desc["i"] >= 2:
                continue  # descendant segments over wide documents: choice trees beyond any cap
            # the flag switched on on a plain instance, before or after the query was compiled (the
            # history in which other environments compiled the text first comes first, before this
            # process has compiled the text on any nondeterministic environment)
            if desc["i"] in (0, 3, 5):
                for flag in ("instance-after-others-compiled-it", "instance-before-compile", "instance-after-compile"):
                    for v in check_input(q, doc, sh, flag=flag):
                        sh.violation(v)
            for v in check_input(q, doc, sh):
                sh.violation(v)
        sh.sample({"query": WIDE_QUERIES[0], "doc": impl.jsonable(doc)}, limit=1)
    elif desc["part"] == "rootref":
        q = ROOTREF_QUERIES[desc["q"]]
        for v in check_input(q, ROOTREF_DOC, sh, cap=100000):
            sh.violation(v)
        sh.sample({"query": q, "doc": impl.jsonable(ROOTREF_DOC)}, limit=1)
    elif desc["part"] == "history":
        q = HIST_QUERIES[desc["q"]]
        for pre in HIST_PRE:
            v = check_history(q, pre, sh)
            if v:
                sh.violation(v)
        sh.sample({"history_query": q, "before": "find_one", "then": "find on another document"}, limit=1)
    elif desc["part"] == "dag":
        doc = dag_docs()[desc["i"]]
        for q in DAG_QUERIES:
            for v in check_input(q, doc, sh, cap=100000):
                v["case"]["dag_doc"] = desc["i"]
                sh.violation(v)
        sh.sample({"query": DAG_QUERIES[0], "doc": impl.jsonable(doc), "shared_containers": True}, limit=1)
    elif desc["part"] == "dup":
        doc = DUP_DOCS[desc["i"]]
        for q in DUP_QUERIES:
            for v in check_input(q, doc, sh, cap=100000):
                sh.violation(v)
        sh.sample({"query": DUP_QUERIES[0], "doc": impl.jsonable(doc)}, limit=1)
    elif desc["part"] == "skeleton":
        docs = skeletons(desc["max"])[desc["lo"]:desc["hi"]]

        def containers(x):
            return 1 + sum(containers(c) for c in x) if isinstance(x, list) else 0

        for doc in docs:
            # skeletons above `full` containers are explored up to a cap (validity of every leaf
            # reached; exhaustiveness is only concluded for uncapped inputs)
            cap = CAP if containers(doc) <= desc["full"] else desc["cap"]
            for q in ("$..[*]", "$..*", "$..[0]", "$..[*,*]"):
                for v in check_input(q, doc, sh, cap=cap):
                    sh.violation(v)
        sh.sample({"query": "$..[*]", "doc": impl.jsonable(docs[-1])}, limit=1)
    else:
        fix = os.path.join(os.path.dirname(os.path.dirname(os.path.dirname(os.path.abspath(__file__)))),
                           "fixtures", "nondeterminism.json")
        cases = json.load(open(fix, encoding="utf8"))
        # the same inputs with the flag switched on on a plain instance before / after compiling
        for c in list(cases):
            if len(json.dumps(c["data"])) < 40:
                for flag in ("instance-before-compile", "instance-after-compile"):
                    for v in check_input(c["query"], c["data"], sh, cap=20000, flag=flag):
                        sh.violation(v)
        for c in cases:
            results, execs, capped, invalid, P, points = explore_input(c["query"], c["data"], cap=20000)
            sh.states += points + execs
            sh.transitions += points
            sh.traces += execs
            sh.evaluations += execs
            sh.nontrivial += 1
            if capped:
                sh.bump("inputs_capped_not_exhaustive")
            if invalid is not None:
                sh.violation(violation("invalid-ordering", {"query": c["query"], "doc": impl.jsonable(c["data"]),
                                                            "choices": invalid[0]}, {"permitted_orderings": len(P)},
                                       {"result": [list(x) for x in invalid[1]]}, "invalid-order"))
            elif not capped and results != P:
                missing = sorted(P - results)
                sh.violation(violation("not-exhaustive", {"query": c["query"], "doc": impl.jsonable(c["data"])},
                                       {"permitted_orderings": len(P)},
                                       {"produced": len(results), "missing_example": [list(x) for x in missing[0]]},
                                       f"missing:{len(missing)}/{len(P)}"))
    return sh
