"""C15 — all entry points agree: find, finditer, find_one, compile().apply, module level.

Space: queries = every depth <= 2 query of the C01 segment alphabet, a filter corpus
(the C02 one- and two-unit expressions over a reduced unit set), an invalid corpus (one
or more queries per error class: syntax, type, name, index) and evaluation-time
failures (recursion limit on deep documents) x documents = all JSON trees with <= 3
nodes, the KINDS table, one deep document x 17 call paths: module-level find /
finditer / find_one / compile().{find, apply, finditer, find_one} and the same seven
through a fresh JSONPathEnvironment.
Oracle (differential, no reference model): find == list(finditer) as [(location, value
identity)]; find_one is the first element or None; apply == find; identical across all
paths; on failure every path raises the same exception class (lazy paths: at the
latest when first advanced).
"""
from mc.checks import c01, c02
from mc.core import impl
from mc.core.explore import Shard, violation
from mc.gen import docs as gdocs

PROPERTY = "C15"
RULE = (
    "(702 structural queries + 2 900 filter queries + 60 invalid queries + deep-document cases) x "
    "(all JSON trees with <=2 (quick) / <=3 (thorough) nodes + 47 kinds + deep documents) x 17 call paths (14 + three through an environment that is created for the call and not kept); all paths must "
    "return the same [(location, value identity)] list / first element / exception class; distinct "
    "by construction; non-trivial = (query, document) pairs with a non-empty result or an error"
)
ASSUMPTIONS = ["differential oracle: the entry points are compared with each other, not with the reference model (that is C01/C02)"]

INVALID = [
    "", "$.", "$..", "$[", "$]", "$[?]", "$[?@.a ==]", "$[?@.a == 1", "$['a", "$[1:2:3:4]", "$[01]", "$[-0]", "a", " $",
    "$ ", "$.a b", "$[?@.a = 1]", "$[?@.a === 1]", "$[?!]", "$[?(@.a]", "$[?@.a)]", "$[,]", "$[1,]", "$[?@.* == 1]",
    "$[?count(@.a) ]", "$[?count(1) == 1]", "$[?length(@.*) == 1]", "$[?match(@.a) ]", "$[?match(@.a, 'a') == true]",
    "$[?value(@.a)]", "$[?length(@.a)]", "$[?nosuch(@.a)]", "$[?nosuch()]", "$[?f1(@) == 1]", "$[9007199254740992]",
    "$[-9007199254740992]", "$[:9007199254740992]", "$[::9007199254740992]", "$[?@[9007199254740992]]", "$[?@ == 'a\x01']",
    "$['\\x']", "$['\\ud800']", "$[?true]", "$[?1]", "$[?@.a == TRUE]", "$.a..", "$..[", "$[?@.a &&]", "$[?|| @.a]",
    "$[?@.a == 1 2]", "$[?(@.a) == 1]", "$[?!!@.a]", "$[?@.a == !1]", "$[1:2 3]", "$[?count(@.a,) == 1]", "$.a-b",
    "$[?@ == 1e400]", "$[?@ == -01]", "$[?@['a' ] == 1", "$[ ]",
    "$[?(@.a 1)]", "$[?(@.a @.b)]", "$[?(@.a == 1 2)]", "$[?count((@.* 1)) == 1]", "$[?length(@.a, !@.b) == 1]",
    "$[?match(@.a, 'x', (@.b))]", "$[?length(match(@.a, 'x')) == 1]", "$[?@['a','b'] == 1]", "$[?@.a == :1.5]",
    "$['\\u-123']", "$[?@.a == \"\\u12\"]", "$[?count(@.a,) == 1]", "$[?!(1)]", "$[?@.a ==== 1]", "$[?@.a &&& @.b]",
]


def BOUNDS(tier):
    return {"structural_query_depth": 2, "filter_units": len(c02.U_SMALL), "invalid_queries": len(INVALID),
            "documents": "all trees <=%d nodes + kinds + deep" % (2 if tier == "quick" else 3), "call_paths": 17}


class AtIteration(Exception):
    """the call of finditer() returned normally and the exception came while iterating"""


def paths(jp, env):
    """name -> callable(query, doc) returning a comparable observation"""
    def lst(it):
        return [(n.location, id(n.value)) for n in it]

    def one(n):
        return None if n is None else (n.location, id(n.value))

    out = {}
    for fam, obj in (("module", jp), ("env", env)):
        out[fam + ".find"] = lambda q, d, o=obj: ("list", lst(o.find(q, d)))
        def fi(q, d, o=obj):
            it = o.finditer(q, d)  # an invalid query is rejected here, by the call itself
            try:
                return ("list", lst(it))
            except Exception as e:  # noqa: BLE001
                raise AtIteration(e) from None

        out[fam + ".finditer"] = fi
        out[fam + ".find_one"] = lambda q, d, o=obj: ("one", one(o.find_one(q, d)))
        out[fam + ".compile.find"] = lambda q, d, o=obj: ("list", lst(o.compile(q).find(d)))
        out[fam + ".compile.apply"] = lambda q, d, o=obj: ("list", lst(o.compile(q).apply(d)))
        out[fam + ".compile.finditer"] = lambda q, d, o=obj: ("list", lst(o.compile(q).finditer(d)))
        out[fam + ".compile.find_one"] = lambda q, d, o=obj: ("one", one(o.compile(q).find_one(d)))
    # an environment that nobody keeps: created for the call, gone before the result is iterated
    if env is not None:
        E = type(env)
        out["temporary_env.find"] = lambda q, d: ("list", lst(E().find(q, d)))

        def tmp_fi(q, d):
            it = E().finditer(q, d)
            try:
                return ("list", lst(it))
            except Exception as e:  # noqa: BLE001
                raise AtIteration(e) from None

        def tmp_cfi(q, d):
            it = E().compile(q).finditer(d)
            try:
                return ("list", lst(it))
            except Exception as e:  # noqa: BLE001
                raise AtIteration(e) from None

        out["temporary_env.finditer"] = tmp_fi
        out["temporary_env.compile.finditer"] = tmp_cfi
    return out


_P = {}


def get_paths():
    if "p" not in _P:
        _P["p"] = paths(impl.jp, impl.jp.JSONPathEnvironment())
    return _P["p"]


def observe_with(table, query, doc):
    obs = {}
    for name, fn in table.items():
        try:
            obs[name] = fn(query, doc)
        except AtIteration as e:
            obs[name] = ("err", type(e.args[0]).__name__, "at-iteration")
        except Exception as e:  # noqa: BLE001
            obs[name] = ("err", type(e).__name__)
    return obs


def observe_all(query, doc):
    obs = observe_with(get_paths(), query, doc)
    try:
        impl.jp.compile(query)
        obs["_compile_fails"] = False
    except Exception:  # noqa: BLE001
        obs["_compile_fails"] = True
    return obs


def disagreement(obs):
    """-> None | (path, expected, observed)"""
    base = obs["module.find"]
    for name, o in obs.items():
        if name.startswith("_"):
            continue
        if obs.get("_compile_fails") and len(o) == 3:
            # the query is invalid: every entry point raises when it is called; a finditer() that
            # returns normally and fails on the first next() has not rejected the query
            return (name, base, ("returned normally", "raised " + o[1] + " while iterating"))
        if base[0] == "err":
            # a lazy path whose iterator is never advanced far enough cannot fail: find_one on
            # an evaluation-time error may legitimately return the first node
            if o[0] == "err":
                if o[1] != base[1]:
                    return (name, base, o)
            elif name.endswith("find_one") and base[1] == "JSONPathRecursionError":
                continue
            else:
                return (name, base, o)
        elif o[0] == "err":
            return (name, base, o)
        elif o[0] == "list":
            if o[1] != base[1]:
                return (name, ("list", len(base[1])), ("list", len(o[1])))
        else:
            want = base[1][0] if base[1] else None
            if o[1] != want:
                return (name, ("one", repr(want)), ("one", repr(o[1])))
    return None


def check_pair(query, doc):
    d = disagreement(observe_all(query, doc))
    if d is None:
        return None
    return violation("entry-points-disagree", {"query": query, "doc": impl.jsonable(doc)},
                     {"module.find": list(map(str, d[1]))}, {"path": d[0], "observed": list(map(str, d[2]))},
                     "disagree:" + d[0])


def check_case(case):
    if "overridden_compile" in case:
        sh = run_overridden(Shard(PROPERTY), only=case)
        return sh.violations[0] if sh.violations else None
    if "reconfigured" in case:
        sh = run_reconfigured(Shard(PROPERTY), only=case)
        return sh.violations[0] if sh.violations else None
    if "stack_case" in case:
        sh = run_stack(Shard(PROPERTY))
        for v in sh.violations:
            if v["case"] == case:
                return v
        return None
    return check_pair(case["query"], impl.unjsonable(case["doc"]))


def deep_doc(n):
    cur = 1
    for _ in range(n):
        cur = [cur]
    return cur


_DOCS = {}


def documents(tier="quick"):
    if tier not in _DOCS:
        _DOCS[tier] = gdocs.docs(2 if tier == "quick" else 3) + gdocs.kinds() + [
            deep_doc(3), {"a": deep_doc(120)}, deep_doc(101), deep_doc(100), {"a": [1, {"a": 2}], "b": {"a": [0]}},
            # strings that look like JSON / like queries: every entry point must treat them as strings
            "42", "[1, 2, 3]", '{"a": 1}', "null", "true", '"s"', "$.a", " 1 ", "1e3", b"bytes".decode(), "[", ""]
    return _DOCS[tier]


def shards(tier):
    documents(tier)
    out = [{"part": "struct", "i": i, "tier": tier} for i in range(len(c01.SEGMENTS))]
    out += [{"part": "filter", "i": i, "tier": tier} for i in range(len(c02.U_SMALL))]
    out += [{"part": "invalid", "tier": tier}]
    out += [{"part": "stack", "tier": tier}, {"part": "reconfigured", "tier": tier}, {"part": "overridden", "tier": tier}]
    return out


def queries(desc):
    p = desc["part"]
    if p == "struct":
        t1 = c01.SEGMENTS[desc["i"]][1]
        yield "$" + t1
        for _, t2 in c01.SEGMENTS:
            yield "$" + t1 + t2
    elif p == "filter":
        u1 = c02.U_SMALL[desc["i"]]
        yield f"$[?{u1}]"
        for u2 in c02.U_SMALL:
            for op in ("&&", "||"):
                yield f"$[?{u1} {op} {u2}]"
                yield f"$..[?{u1} {op} {u2}]"
    else:
        yield from INVALID
        yield "$..*"
        yield "$..[?@..a]"
        yield "$"
        yield "$[?@]"
        yield "$[?@ == $[0]]"


def chain_doc(n):
    cur = 1
    for _ in range(n):
        cur = {"a": cur}
    return cur


def stack_cases():
    """(query, document, environment paths only?) far away from the interpreter's recursion limit
    (1000 here) on either side: evaluation either fits comfortably or exhausts the stack on every
    path; whichever exception that gives, every entry point must give the same one."""
    for n in (300, 3000, 6000):
        yield "$" + ".a" * n, chain_doc(n), False
        yield "$" + "[*]" * n, chain_doc(3), False
        yield "$" + "['a']" * n, {}, False
        yield "$[?@" + ".a" * n + " == 1]", [chain_doc(n)], False
    for n in (300, 3000):
        # a document nested beyond the interpreter stack, under a raised max_recursion_depth
        yield "$..z", chain_doc(n), True
        yield "$[?@..z]", [chain_doc(n)], True
        yield "$..[?@.z]", deep_doc(n), True


def run_stack(sh):
    import sys

    class Big(impl.jp.JSONPathEnvironment):
        max_recursion_depth = 10**6

    big = {k: v for k, v in paths(impl.jp, Big()).items() if k.startswith("env.")}
    old = sys.getrecursionlimit()
    sys.setrecursionlimit(1000)
    try:
        for q, doc, env_only in stack_cases():
            table = big if env_only else get_paths()
            obs = observe_with(table, q, doc)
            sh.states += 1
            sh.transitions += len(table)
            sh.traces += len(table)
            sh.evaluations += 1
            sh.nontrivial += 1
            sh.bump("stack_cases_" + ("raising" if obs["env.find"][0] == "err" else "completing"))
            if env_only:
                obs = dict(obs, **{"module.find": obs["env.find"]})
            d = disagreement(obs)
            if d is not None:
                sh.violation(violation("entry-points-disagree",
                                       {"stack_case": q[:40] + ("..." if len(q) > 40 else ""), "query_length": len(q),
                                        "raised_limit_environment": env_only},
                                       {"find": list(map(str, d[1]))[:2]},
                                       {"path": d[0], "observed": list(map(str, d[2]))[:2]}, "disagree:" + d[0]))
    finally:
        sys.setrecursionlimit(old)
    sh.sample({"stack_case": "$" + ".a" * 3 + "... (3000 segments)"}, limit=1)
    return sh


def reconfig_cases():
    """(name, query, document, reconfigure(env)): the environment is reconfigured AFTER a query was
    compiled on it; the entry points of that compiled query and the environment's own methods (which
    compile again) must still agree - both follow the environment as it is when they are applied"""
    from jsonpath_rfc9535.function_extensions import ExpressionType, FilterFunction

    def make_f(n):
        class F(FilterFunction):
            arg_types = [ExpressionType.VALUE]
            return_type = ExpressionType.LOGICAL

            def __call__(self, v):
                return v == n and not isinstance(v, bool)

        return F()

    def limit(n):
        return lambda e: setattr(e, "max_recursion_depth", n)

    def refunc(n):
        return lambda e: e.function_extensions.__setitem__("f1", make_f(n))

    deep = deep_doc(6)
    for q in ("$..*", "$..[0]", "$[?@..[0]]", "$[?count(@..*) > 1]", "$..[?@[0]]"):
        for d in (deep, [deep], {"a": deep, "b": 1}):
            yield "limit lowered", q, d, limit(3), None
            yield "limit lowered to 1", q, d, limit(1), None
            yield "limit raised", q, d, limit(200), limit(2)
    docs = [[{"a": 1}, {"a": 2}, {"a": 3}], {"x": {"a": 2}, "y": {"a": 1}}]
    for q in ("$[?f1(@.a)]", "$..[?f1(@.a)]", "$[?!f1(@.a) && @.a]", "$[?f1(@.a) || f1(@.a)]"):
        for d in docs:
            yield "function registered again", q, d, refunc(2), refunc(1)


def run_reconfigured(sh, only=None):
    for name, q, doc, change, before in reconfig_cases():
        case = {"reconfigured": name, "query": q, "doc": impl.jsonable(doc)}
        if only is not None and only != case:
            continue
        env = impl.jp.JSONPathEnvironment()
        if before is not None:
            before(env)
        try:
            cq = env.compile(q)
            list(cq.finditer(doc))  # the compiled query has been applied once already
        except Exception:  # noqa: BLE001
            pass
        change(env)
        table = {k: v for k, v in paths(impl.jp, env).items() if k.startswith("env.")}
        # the query compiled BEFORE the change, through its four entry points
        one = lambda n: None if n is None else (n.location, id(n.value))  # noqa: E731
        lst = lambda it: [(n.location, id(n.value)) for n in it]  # noqa: E731
        table["old.find"] = lambda q_, d_: ("list", lst(cq.find(d_)))
        table["old.apply"] = lambda q_, d_: ("list", lst(cq.apply(d_)))
        table["old.finditer"] = lambda q_, d_: ("list", lst(cq.finditer(d_)))
        table["old.find_one"] = lambda q_, d_: ("one", one(cq.find_one(d_)))
        obs = observe_with(table, q, doc)
        sh.states += 1
        sh.transitions += len(table)
        sh.traces += len(table)
        sh.evaluations += 1
        sh.nontrivial += 1
        obs["module.find"] = obs["env.find"]
        d = disagreement(obs)
        if d is not None:
            sh.violation(violation("entry-points-disagree", case, {"env.find": list(map(str, d[1]))[:2]},
                                   {"path": d[0], "observed": list(map(str, d[2]))[:2]}, "disagree:" + d[0]))
    sh.sample({"reconfigured": "limit lowered", "query": "$..*"}, limit=1)
    return sh


def run_overridden(sh, only=None):
    """an environment subclass that customises the public compile() (here: tolerates blank space
    around the query): its find / finditer / find_one and the queries it compiles must agree"""
    class Lenient(impl.jp.JSONPathEnvironment):
        def compile(self, query):  # noqa: A003
            return super().compile(query.strip() if isinstance(query, str) else query)

    table = {k: v for k, v in paths(impl.jp, Lenient()).items() if k.startswith("env.")}
    docs = [{"a": 1, "b": [{"a": 2}]}, [1, [2]], "s"]
    for q in (" $.a", "$..a ", "\n$[0]\t", "$.a", "  $[?@.a]  ", " $[", "$.a b "):
        for doc in docs:
            case = {"overridden_compile": True, "query": q, "doc": impl.jsonable(doc)}
            if only is not None and only != case:
                continue
            obs = observe_with(table, q, doc)
            sh.states += 1
            sh.transitions += len(table)
            sh.traces += len(table)
            sh.evaluations += 1
            sh.nontrivial += 1
            obs["module.find"] = obs["env.compile.find"]
            obs["_compile_fails"] = obs["env.compile.find"][0] == "err"
            d = disagreement(obs)
            if d is not None:
                sh.violation(violation("entry-points-disagree", case, {"env.compile(q).find": list(map(str, d[1]))[:2]},
                                       {"path": d[0], "observed": list(map(str, d[2]))[:2]}, "disagree:" + d[0]))
    sh.sample({"overridden_compile": True, "query": " $.a"}, limit=1)
    return sh


def run_shard(desc):
    sh = Shard(PROPERTY)
    if desc["part"] == "overridden":
        return run_overridden(sh)
    if desc["part"] == "stack":
        return run_stack(sh)
    if desc["part"] == "reconfigured":
        return run_reconfigured(sh)
    docs = documents(desc["tier"])
    for q in queries(desc):
        sh.states += 1
        for doc in docs:
            sh.transitions += len(get_paths())
            sh.traces += len(get_paths())
            sh.evaluations += 1
            obs = observe_all(q, doc)
            base = obs["module.find"]
            if base[0] == "err" or base[1]:
                sh.nontrivial += 1
            d = disagreement(obs)
            if d is not None:
                v = check_pair(q, doc)
                if v:
                    sh.violation(v)
            if desc["part"] == "invalid" and base[0] == "err" and q in INVALID:
                break  # a compile-time error does not depend on the document: one document suffices
        sh.sample({"query": q, "paths": sorted(get_paths())[:3]}, limit=1)
    return sh
