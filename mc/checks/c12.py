"""C12 — str(query) is a faithful canonical form: it reparses to the same query.

Spaces: (A) Boolean structure — every expression tree with <= 4 leaves over the
independent atoms @.a @.b @.c @.d (each leaf a test or a comparison), every
assignment of && / || to inner nodes and of `!` to any subset of nodes, printed with
minimal and with full parentheses; evaluated on a document whose 81 children realise
every combination absent / 1 / 2 of the four members (a complete truth table, so any
regrouping that changes the meaning changes the result).  (B) Serialisation of
selectors and literals — the valid corpus, every selector kind, slices with every
subset of parts omitted, member names and string literals over the BMP and a special
alphabet, number spellings, function calls, nested filters.
Oracle: s = str(compile(q)) is valid for R2 (and R1); compile(s) succeeds;
str(compile(s)) == s; find(s, d) == find(q, d) == R3(q, d) on the documents; every
string literal in s is in canonical single-quoted form (R4 escaping).
"""
import itertools

from mc.core import diff, impl
from mc.core.explore import Shard, violation
from mc.gen import strings as gs
from mc.ref import abnf
from mc.ref import eval as ev
from mc.ref import parser as rp
from mc.ref import paths as rpaths
from mc.ref import typing as rt

PROPERTY = "C12"
RULE = (
    "(A) all expression trees with <=4 leaves (test or comparison atoms on independent members) "
    "x operator assignments x negation subsets x 2 parenthesisation styles, on an 81-child "
    "truth-table document; (B) corpus queries, all slice shapes, names/literals over BMP + special "
    "characters and over query-syntax characters ($ @ . [ ] ( ) ? ...) in 7 syntactic positions, number spellings, all Boolean expressions with <=3 leaves as the argument of a LogicalType parameter of a registered function, the C02 unit corpus plus 17 nested-filter / root-query atoms in one- and two-unit expressions; for each: str() valid, reparse idempotent, same nodes, "
    "canonical literals; distinct by construction; non-trivial = query contains a filter, a "
    "string literal or a slice"
)
ASSUMPTIONS = [
    "semantic equality is decided on a complete truth-table document (A) or on small dedicated documents (B), not on all JSON values",
    "numbers beyond 2^53 / not exactly representable are excluded (grey)",
]
ATOMS = ["a", "b", "c", "d"]


def BOUNDS(tier):
    return {"max_leaves": 4, "leaf_kinds": ["test @.x", "comparison @.x == 1"], "truth_table_children": 81,
            "four_leaf_trees": "all 16 leaf-kind assignments + reference-model equivalence" if tier == "thorough"
            else "3 leaf-kind assignments (uniform/alternating), implementation-vs-implementation equality",
            "bmp_names": "U+0000..U+FFFF" if tier == "thorough" else "U+0000..U+2FFF + U+D000..U+FFFF",
            }


# ---- (A) boolean structure ---------------------------------------------------


def trees(n):
    """shapes with n leaves: 'L' or (left, right)"""
    if n == 1:
        return ["L"]
    out = []
    for i in range(1, n):
        for l in trees(i):
            for r in trees(n - i):
                out.append((l, r))
    return out


def count_nodes(t):
    return 1 if t == "L" else 1 + count_nodes(t[0]) + count_nodes(t[1])


def render(t, leaves, ops, negs, kinds, full):
    """-> (text, precedence) ; consumes from the iterators in pre-order"""
    neg = next(negs)
    if t == "L":
        name = next(leaves)
        kind = next(kinds)
        if kind == "test":
            txt = "@." + name
            return ("!" + txt if neg else txt), 9
        txt = f"@.{name} == 1"
        if neg:
            return f"!({txt})", 9
        return txt, 5
    op = next(ops)
    l, lp = render(t[0], leaves, ops, negs, kinds, full)
    r, rp_ = render(t[1], leaves, ops, negs, kinds, full)
    prec = 4 if op == "&&" else 3
    # minimal parentheses: && binds tighter than ||; same-operator chains are left-assoc
    if full or lp < prec:
        l = f"({l})"
    if full or rp_ <= prec:
        r = f"({r})"
    txt = f"{l} {op} {r}"
    if neg:
        return f"!({txt})", 9
    return txt, prec


def bool_exprs(n):
    for t in trees(n):
        inner = n - 1
        nodes = count_nodes(t)
        for ops in itertools.product(["&&", "||"], repeat=inner):
            for negs in itertools.product([False, True], repeat=nodes):
                for kinds in itertools.product(["test", "cmp"], repeat=n):
                    for full in (False, True):
                        txt, _ = render(t, iter(ATOMS), iter(ops), iter(negs), iter(kinds), full)
                        yield txt


_TT = {}


def truth_doc():
    if "d" not in _TT:
        out = []
        for combo in itertools.product([None, 1, 2], repeat=4):
            out.append({k: v for k, v in zip(ATOMS, combo) if v is not None})
        _TT["d"] = out
    return _TT["d"]


# ---- oracle -------------------------------------------------------------------


def literals_canonical(s):
    """every string literal in s must be the canonical single-quoted rendering"""
    p = rp._P(s)
    i = 0
    n = len(s)
    while i < n:
        c = s[i]
        if c == "'" or c == '"':
            try:
                v, j = p.string_literal(i)
            except rp.Fail:
                return f"unparseable literal at {i}"
            if s[i:j] != rpaths.render_name(v):
                return f"literal {s[i:j]!r} is not canonical (want {rpaths.render_name(v)!r})"
            i = j
        else:
            i += 1
    return None


_LENV = {}


def logical_env():
    """environment with fl_l : LogicalType -> LogicalType (identity) and its reference twin"""
    if "env" not in _LENV:
        from jsonpath_rfc9535 import JSONPathEnvironment
        from jsonpath_rfc9535.function_extensions import ExpressionType, FilterFunction

        class FL(FilterFunction):
            arg_types = [ExpressionType.LOGICAL]
            return_type = ExpressionType.LOGICAL

            def __call__(self, x):
                return x is True

        class FVL(FilterFunction):
            """(ValueType, LogicalType) -> LogicalType: the logical parameter is not the first one"""
            arg_types = [ExpressionType.VALUE, ExpressionType.LOGICAL]
            return_type = ExpressionType.LOGICAL

            def __call__(self, v, x):
                return x is True and v == 1 and not isinstance(v, bool)

        env = JSONPathEnvironment()
        env.function_extensions["fl_l"] = FL()
        env.function_extensions["fvl_l"] = FVL()
        reg = dict(rt.BUILTINS)
        reg["fl_l"] = (("L",), "L")
        reg["fvl_l"] = (("V", "L"), "L")
        impls = dict(ev.BUILTIN_IMPL)
        impls["fl_l"] = lambda x: x is True
        impls["fvl_l"] = lambda v, x: x is True and v is not ev.NOTHING and v == 1 and not isinstance(v, bool)
        _LENV["env"] = (env, reg, ev.Env(reg, impls))
    return _LENV["env"]


def check_roundtrip(q, docs, with_ref=True, custom=False):
    """-> (kind, expected, observed) | None"""
    if custom:
        return _check_roundtrip_custom(q, docs)
    v = diff.ast_of(q)
    assert v.cls == "valid", (q, v)
    r = impl.run(impl.jp.compile, q)
    if r[0] != "ok":
        return None  # C03's subject
    cq = r[1]
    sr = impl.run(str, cq)
    if sr[0] != "ok":
        return ("str-raised", "str(query) returns", {"raised": sr[1]})
    s = sr[1]
    vs = rt.classify(s)
    if vs.cls != "valid":
        if vs.cls == "grey":
            return None
        if abnf.in_language(s) != (vs.cls == "ill-typed"):
            raise AssertionError(f"R1/R2 disagree on {s!r}")
        return ("str-not-valid", "a valid RFC 9535 query", {"str": s, "why": vs.why})
    r2 = impl.run(impl.jp.compile, s)
    if r2[0] != "ok":
        return ("str-does-not-compile", "compiles", {"str": s, "raised": r2[1], "msg": r2[3]})
    s2 = str(r2[1])
    if s2 != s:
        return ("str-not-idempotent", s, {"second": s2})
    bad = literals_canonical(s)
    if bad:
        return ("literal-not-canonical", "canonical single-quoted literals", {"str": s, "why": bad})
    for doc in docs:
        a = impl.run(cq.find, doc)
        b = impl.run(r2[1].find, doc)
        if a[0] != "ok" or b[0] != "ok":
            if a[0] != b[0]:
                return ("str-behaves-differently", "same outcome", {"str": s, "q": a[0], "s": b[0]})
            continue
        la = [(n.location, id(n.value)) for n in a[1]]
        lb = [(n.location, id(n.value)) for n in b[1]]
        if la != lb:
            return ("str-selects-differently", {"nodes": impl.nodes_obs(a[1])[:6]},
                    {"str": s, "nodes": impl.nodes_obs(b[1])[:6], "doc": impl.jsonable(doc) if len(repr(doc)) < 300 else "truth-table"})
        if not with_ref:
            continue
        # and the reference model agrees that the printed query means the same
        ea = [loc for loc, _ in ev.evaluate(v.ast, doc)]
        eb = [loc for loc, _ in ev.evaluate(vs.ast, doc)]
        if ea != eb:
            return ("str-changes-meaning", {"locations": [list(x) for x in ea][:8]},
                    {"str": s, "locations": [list(x) for x in eb][:8]})
    return None


def _check_roundtrip_custom(q, docs):
    """same oracle on an environment with a LogicalType -> LogicalType function"""
    env, reg, renv = logical_env()
    v = rt.classify(q, registry=reg)
    assert v.cls == "valid", (q, v)
    r = impl.run(env.compile, q)
    if r[0] != "ok":
        return None
    s = str(r[1])
    vs = rt.classify(s, registry=reg)
    if vs.cls == "grey":
        return None
    if vs.cls != "valid":
        return ("str-not-valid", "a valid RFC 9535 query", {"str": s, "why": vs.why})
    r2 = impl.run(env.compile, s)
    if r2[0] != "ok":
        return ("str-does-not-compile", "compiles", {"str": s, "raised": r2[1], "msg": r2[3]})
    if str(r2[1]) != s:
        return ("str-not-idempotent", s, {"second": str(r2[1])})
    for doc in docs:
        a = [(n.location, id(n.value)) for n in r[1].find(doc)]
        b = [(n.location, id(n.value)) for n in r2[1].find(doc)]
        if a != b:
            return ("str-selects-differently", {"nodes": len(a)}, {"str": s, "nodes": len(b)})
        ea = [loc for loc, _ in ev.evaluate(v.ast, doc, renv)]
        eb = [loc for loc, _ in ev.evaluate(vs.ast, doc, renv)]
        if ea != eb or [x[0] for x in a] != ea:
            return ("str-changes-meaning", {"locations": [list(x) for x in ea][:8]},
                    {"str": s, "locations": [list(x) for x in eb][:8]})
    return None


def docs_for(q, hint):
    if hint == "tt":
        return [truth_doc()]
    if hint == "c02":
        from mc.checks import c02
        return [c02.arr_doc(), c02.obj_doc(), {"a": 1, "x": 2, "b": [{"a": 1, "b": "b"}, 1, {"$": "$", "@": "$"}]}]
    return GENERIC


GENERIC = [
    {"a": [3, 5, 1, 2, 4, 6, {"b": "j"}, {"b": "k"}, {"b": {}}, {"b": "kilo"}], "o": {"p": 1, "q": 2, "r": 3, "s": 5, "t": {"u": 6}}, "e": "f"},
    [0, 1, 2, 3, 4, 5, 6],
    [{"a": 1, "b": 2}, {"a": "x"}, {"a": [1, 2]}, 1, "a", None, True, [1, [2]], {"a": {"b": [1]}}],
]


def check_case(case):
    docs = docs_for(case["query"], case.get("docs", "generic"))
    if "special" in case:
        docs = [impl.unjsonable(case["special"])]
    bad = check_roundtrip(case["query"], docs, custom=bool(case.get("custom")))
    if bad:
        return violation(bad[0], case, bad[1], bad[2], "roundtrip")
    return None


# ---- (B) serialisation spaces ---------------------------------------------------


def slice_queries():
    vals = [None, 0, 1, -1, 2, -2]
    for a, b, c in itertools.product(vals, repeat=3):
        t = ("" if a is None else str(a)) + ":" + ("" if b is None else str(b))
        yield f"$[{t}]"
        yield f"$[{t}:{'' if c is None else c}]"
    yield "$[ 1 : 2 : 3 ]"
    yield "$[::]"


def number_queries():
    ints = ["0", "-0", "1", "-1", "10", "12", "-12", "9007199254740991", "100"]
    fracs = ["", ".0", ".5", ".05", ".50", ".125"]
    exps = ["", "e0", "e1", "E1", "e+1", "e-1", "e01", "E+01", "e-0", "e2", "e-2", "e10", "e-10", "e15", "e-7"]
    for a in ints:
        for b in fracs:
            for c in exps:
                yield f"$[?@ == {a}{b}{c}]"
                yield f"$[?{a}{b}{c} < @.a]"


def precise_number_queries():
    """numbers whose shortest repr needs many digits / extreme exponents, each on a document holding
    exactly that number and its two neighbouring doubles: the printed literal must denote the same
    double, or the round trip selects a different node"""
    import math
    mants = ["1.23456789", "9.87654321012345", "1.5", "2.2250738585072014", "4.9", "1.7976931348623157", "123456789.125",
             "0.1", "7", "-3.0000000000000004", "1.0000000000000002"]
    exps = ["", "e-5", "e-10", "e-17", "e-20", "e-100", "e-300", "e-308", "e-320", "e5", "e16", "e17", "e22", "e100", "e300"]
    for m in mants:
        for e in exps:
            text = m + e
            try:
                v = float(text)
            except ValueError:
                continue
            if math.isinf(v):
                continue
            doc = [v, math.nextafter(v, math.inf), math.nextafter(v, -math.inf), 0, -v]
            doc = [x for x in doc if not math.isinf(x)]
            yield f"$[?@ == {text}]", doc
            yield f"$[?@ < {text} || @ == {text}]", doc


NUM_DOC = [0, 1, -1, 10, 12, -12, 0.5, 1.5, 100, 120, 0.1, 1e10, 5e-7, 0.05, 1.25e-6, 9007199254740991, {"a": 1}, {"a": 1000}]


def name_queries(cps):
    for c in cps:
        ch = chr(c)
        name = "a" + ch
        lit = rpaths.render_name(name)
        yield f"$[{lit}]", {name: 1, "a": 2}
        dq = '"' + lit[1:-1].replace("\\'", "'").replace('"', '\\"') + '"'
        yield f"$[?@ == {dq}]", [name, "a", 1]
        if c <= 0xFFFF:
            yield "$['\\u%04x']" % c, {ch: 1}
            if c < 0x100 or c % 64 == 11:
                yield "$['\\u%04X']" % c, {ch: 1}
                yield '$[?@ == "\\u%04X"]' % c, [ch, "x"]
            if rp.is_name_first(ch):
                yield f"$.{ch}", {ch: 1}
                yield f"$[?@.{ch}a == '{ch}']".replace("'''", "'\\''"), [{ch + "a": ch}]


def cps(tier):
    if tier == "thorough":
        r = [c for c in range(0x10000) if not 0xD800 <= c <= 0xDFFF]
    else:
        r = list(range(0, 0x3000)) + list(range(0xD000, 0xD800)) + list(range(0xE000, 0x10000))
    r += [0x10000, 0x1F600, 0x10FFFF]
    return r


def _double_quoted(name):
    out = []
    for ch in name:
        if ch in '"\\':
            out.append("\\" + ch)
        elif ord(ch) < 0x20:
            out.append("\\u%04x" % ord(ch))
        else:
            out.append(ch)
    return '"' + "".join(out) + '"'


SPECIAL = ["'", '"', "\\", "/", "\x00", "\x08", "\x0b", "\x1f", " ", "\x7f", "\x80", "\U0001F600", "a"]
SYNTAX_CHARS = list("$@.[]()?*,:!&|=<>-+#%{}") + ["&&", "||", "==", "$.", "@.", "..", "[?", "$[", "@["]
NESTED_ATOMS = [
    "@[?$.a]", "@[?@.a == $.a]", "@.b[?$.x]", "@[?$[0]]", "@[?@ == $.a]", "count(@[?$.a]) == 1", "@[?@[?$.a]]",
    "$[?@.a]", "$.a[?@ == $.a]", "@..[?@.a == $.a]", "@[?count($.*) > 1]", "@[?match(@.b, 'b') || $.a]",
    "value(@[?@.a == $.a]) == 1", "@['$ref']", "@['@']", "@['$'] == '$'", "@[?@['$'] == $['@']]",
]


def shards(tier):
    out = [{"space": "bool", "n": n, "tree": i, "ops": o, "tier": tier} for n in range(1, 5)
           for i in range(len(trees(n))) for o in range(2 ** (n - 1))]
    out += [{"space": "corpus"}, {"space": "slices"}, {"space": "numbers"}, {"space": "special"},
            {"space": "syntaxchars"}]
    from mc.checks import c02
    out += [{"space": "nested", "i": i} for i in range(len(NESTED_ATOMS) + len(c02.U_ALL))]
    out += [{"space": "logical_args", "n": n, "part": k, "of": 16 if n == 3 else 1}
            for n in (1, 2, 3) for k in range(16 if n == 3 else 1)]
    cp = cps(tier)
    step = 2048
    out += [{"space": "names", "lo": lo, "hi": min(lo + step, len(cp)), "tier": tier} for lo in range(0, len(cp), step)]
    return out


def run_shard(desc):
    sh = Shard(PROPERTY)

    def do(q, hint="generic", special=None, with_ref=True):
        sh.states += 1
        sh.transitions += 3
        sh.traces += 1
        sh.evaluations += 1
        if "?" in q or "'" in q or '"' in q or ":" in q:
            sh.nontrivial += 1
        v = diff.ast_of(q)
        if v.cls == "grey":
            return
        docs = [special] if special is not None else docs_for(q, hint)
        bad = check_roundtrip(q, docs, with_ref)
        if bad:
            case = {"query": q, "docs": hint}
            if special is not None:
                case["special"] = impl.jsonable(special)
            sh.violation(violation(bad[0], case, bad[1], bad[2], "roundtrip"))
        sh.sample({"query": q}, limit=2)

    sp = desc["space"]
    if sp == "bool":
        n = desc["n"]
        t = trees(n)[desc["tree"]]
        inner = n - 1
        nodes = count_nodes(t)
        ops = list(itertools.product(["&&", "||"], repeat=inner))[desc["ops"]]
        thorough = desc["tier"] == "thorough"
        kind_sets = list(itertools.product(["test", "cmp"], repeat=n))
        if n == 4 and not thorough:
            # quick: depth-3 chains with uniform / alternating leaf kinds only
            kind_sets = [("test",) * 4, ("cmp",) * 4, ("test", "cmp", "test", "cmp")]
        for negs in itertools.product([False, True], repeat=nodes):
            for kinds in kind_sets:
                for full in (False, True):
                    txt, _ = render(t, iter(ATOMS), iter(ops), iter(negs), iter(kinds), full)
                    do(f"$[?{txt}]", "tt", with_ref=(thorough or n < 4))
                    if (n <= 3 or thorough) and not full:
                        # the filter is not the last / not the only selector of its segment, and nested
                        do(f"$[?{txt}, 0]", "tt", with_ref=False)
                        do(f"$[0, ?{txt}]", "tt", with_ref=False)
                        do(f"$[?@[?{txt}, 'a']]", "tt", with_ref=False)
                        do(f"$[?count(@[?{txt}, 0]) > 1]", "tt", with_ref=False)
    elif sp == "corpus":
        for q in gs.corpus():
            if diff.ast_of(q).cls == "valid":
                do(q)
    elif sp == "slices":
        for q in slice_queries():
            do(q)
    elif sp == "numbers":
        for q in number_queries():
            do(q, special=NUM_DOC)
        for q, d in precise_number_queries():
            do(q, special=d)
    elif sp == "special":
        for k in (1, 2, 3):
            for combo in itertools.product(SPECIAL, repeat=k):
                name = "".join(combo)
                lit = rpaths.render_name(name)
                do(f"$[{lit}]", special={name: 1, "x": 2})
                # the same name spelled with double quotes: str() has to re-spell it (single-quoted)
                dq = _double_quoted(name)
                do(f"$[{dq}]", special={name: 1, "x": 2})
                if k < 3:
                    do(f"$[?@ == {lit} || @.k == {lit}]", special=[name, {"k": name}, "x"])
                    do(f"$[?@ == {dq} || @.k == {lit}]", special=[name, {"k": name}, "x"])
    elif sp == "logical_args":
        # Boolean expressions as the argument of a LogicalType parameter (printed by the
        # expression classes' own __str__, not by the filter's canonical printer)
        for idx, e in enumerate(bool_exprs(desc["n"])):
            if idx % desc.get("of", 1) != desc.get("part", 0):
                continue
            for q in (f"$[?fl_l({e})]", f"$[?!fl_l({e}) || @.d]", f"$[?fl_l(fl_l({e}) && @.d)]", f"$[?fvl_l(@.a, {e})]",
                      f"$[?count(@[?{e}]) == 0 || fvl_l(1, {e})]"):
                sh.states += 1
                sh.transitions += 3
                sh.traces += 1
                sh.evaluations += 1
                sh.nontrivial += 1
                bad = check_roundtrip(q, [truth_doc()], custom=True)
                if bad:
                    sh.violation(violation(bad[0], {"query": q, "docs": "tt", "custom": True}, bad[1], bad[2], "roundtrip"))
        sh.sample({"query": "$[?fl_l(!(@.a == 1))]"}, limit=1)
    elif sp == "syntaxchars":
        # names / literals made of characters that mean something in the query syntax, in every
        # position where a name or literal can occur (top-level, relative query, root query in a
        # filter, nested filter, function argument)
        for k in (1, 2):
            for combo in itertools.product(SYNTAX_CHARS, repeat=k):
                name = "x".join(combo) if k == 2 else combo[0]
                lit = rpaths.render_name(name)
                d = {name: 1, "k": {name: 2}, "l": [{name: 1}, {name: 3}, name]}
                do(f"$[{lit}]", special=d)
                do(f"$.l[?@[{lit}]]", special=d)
                do(f"$.l[?@[{lit}] == $[{lit}]]", special=d)
                do(f"$.l[?@ == {lit}]", special=d)
                do(f"$[?@[?@[{lit}] == 3]]", special=d)
                do(f"$.l[?count(@[{lit}]) == 1]", special=d)
                do(f"$.l[?$.k[{lit}] == 2]", special=d)
    elif sp == "nested":
        from mc.checks import c02
        units = list(NESTED_ATOMS) + list(c02.U_ALL)
        u1 = units[desc["i"]]
        docs = [c02.arr_doc(), c02.obj_doc(), {"a": 1, "x": 2, "b": [{"a": 1, "b": "b"}, 1, {"$": "$", "@": "$"}]}]

        def run(e):
            q = f"$[?{e}]"
            if diff.ast_of(q).cls != "valid":
                return
            sh.states += 1
            sh.transitions += 3
            sh.traces += 1
            sh.evaluations += 1
            sh.nontrivial += 1
            bad = check_roundtrip(q, docs, with_ref=False)
            if bad:
                sh.violation(violation(bad[0], {"query": q, "docs": "c02"}, bad[1], bad[2], "roundtrip"))

        run(u1)
        run(f"!({u1})")
        for u2 in NESTED_ATOMS + c02.U_SMALL:
            for op in ("&&", "||"):
                run(f"{u1} {op} {u2}")
                run(f"!({u1} {op} {u2}) {op} {u2}")
    else:
        for q, doc in name_queries(cps(desc["tier"])[desc["lo"]:desc["hi"]]):
            do(q, special=doc)
    return sh
