"""C16 — lazy result iterators are independent under any interleaving or threading.

Iterator part: harnesses of k = 2 or 3 live iterators obtained from {the same compiled
query, two compilations on one environment, two environments} over {the same
document, two documents}; ALL interleavings of next() calls up to and including the
call that raises StopIteration (stateless: every schedule is re-executed on fresh
iterators, generators cannot be copied), and for k = 2 every schedule additionally
with one iterator closed / dropped at every point; plus "abandon" histories: an
iterator of a compiled query is advanced j steps and then closed / dropped (or
find_one() is called) 1..5 (..130 thorough) times on an environment whose recursion
limit equals the document's nesting, after which a complete run must be intact.  Oracle: the j-th item of iterator
i is the j-th item of its solitary run; exhaustion happens exactly at the end.
Thread part: 2 real threads (bodies: list(q.finditer(d)), env.find(text, d),
env.compile(text) + find) on shared query / environment objects under a cooperative
scheduler (mc/sched/threads.py: sys.settrace line events in package code are the
scheduling points, one baton).  Iterative preemption bounding: all schedules with 0
and 1 preemptions (quick), 2 (thorough, capped); thorough adds two 3-thread harnesses at bound 1.  Oracle: each thread observes its
sequential result, and the same bodies run sequentially afterwards still do (the shared
environment / query objects are left intact).
Compile-only part: two threads each call env.compile(text) on one shared environment that
has (or has not) compiled the text before; these bodies are short enough (119-458 scheduling
points each) for ALL schedules with <= 2 preemptions, split into 16 slices by the smallest
preemption of a schedule (quick: the same-text / already-compiled harness; thorough: all four).
Oracle: both threads get a query that prints and evaluates like the sequential one.  Quick also
runs the first two compile-only harnesses at bytecode granularity with <= 1 preemption; thorough
repeats all compile-only harnesses with a scheduling point before every BYTECODE instruction of
package code (frame.f_trace_opcodes), so that a preemption can also fall between the load and the
store of an in-place update: <= 2 preemptions for the first harness, <= 1 for the others.
"""
import itertools
import os

from mc.core import impl
from mc.core.explore import Shard, violation
from mc.sched import threads as ts

PROPERTY = "C16"
SERIAL_THREADS = True
RULE = (
    "iterator part: 10 queries x 7 harness configurations (sharing of query / environment / document) "
    "x all interleavings of next() over 2-3 iterators (multinomial; every schedule replayed on fresh "
    "iterators) + all single close/drop points for k=2; thread part: 20 two-thread harnesses x all "
    "schedules with <=1 (quick) / <=2 (thorough, capped) preemptions at line granularity; compile-only part: "
    "1 (quick) / 4 (thorough) two-thread compile harnesses x ALL schedules with <=2 preemptions; distinct by "
    "construction; non-trivial = schedules in which at least two iterators/threads are live at once"
)
ASSUMPTIONS = [
    "thread schedules are explored at source-line granularity under the GIL (bytecode granularity for the compile-only harnesses in thorough); interleavings inside C extensions (regex) are not covered",
    "cooperative scheduling: exactly one thread runs between scheduling points",
]

QUERIES = [
    ("$[?@.a == 1].b", [{"a": 1, "b": "x"}, {"a": 2, "b": "y"}, {"a": 1, "b": "z"}]),
    ("$..a", {"a": 1, "b": {"a": [2, {"a": 3}]}}),
    ("$[?@[?@.a]]", [[{"a": 1}], [0], [{"a": 2}, 1]]),
    ("$['a','b','a']", {"a": 1, "b": 2}),
    ("$[?match(@.b, 'x.')]", [{"b": "xy"}, {"b": "y"}, {"b": "xz"}]),
    ("$[?count(@..a) > 1]", [{"a": {"a": 1}}, {"a": 1}, {"b": {"a": 1}, "a": 0}]),
    ("$..[?@.a == $.x]", {"x": 1, "l": [{"a": 1}, {"a": 2}], "m": {"k": {"a": 1}}}),
    ("$[1:][::-1]", [[1], [2, 3], [4, 5]]),
    ("$[*][*]", [[1, 2], {"k": 3}]),
    ("$..[0,1]", [[1, [2]], 3]),
    ("$[?match(@.b, '.y')]", [{"b": "xy"}, {"b": "y"}, {"b": "zy"}]),
    ("$[?search(@.b, 'y|z')]", [{"b": "xy"}, {"b": "x"}, {"b": "xz"}]),
    ("$[?value(@..a) == 1]", [{"a": 1}, {"b": {"a": 1}}, {"a": 2}]),
    # '.' inside a character class (a literal dot) / outside (anything but CR, LF), on subjects that tell them apart
    ("$[?match(@.b, '[.]y|a[^.]')]", [{"b": ".y"}, {"b": "xy"}, {"b": "a."}, {"b": "ab"}]),
    ("$[?search(@.b, 'x.')]", [{"b": "x\r"}, {"b": "xy"}, {"b": "ax\n"}, {"b": "x"}]),
    # the bare current node as comparison operand / function argument
    ("$[?@ >= 20]", [5, 20, 35, 7]),
    ("$[?length(@) == 2]", ["ab", "c", "de", [1, 2], {"k": 1}]),
]
N_ITER_QUERIES = 10
ALT_DOC = {"a": 7, "b": [{"a": 1, "b": "x"}, [5, 6]], "x": 2, "l": [{"a": 2}]}
CONFIGS = ["same-query-same-doc", "same-query-two-docs", "same-query-twin-docs", "two-compilations-same-doc", "two-envs-same-doc",
           "two-envs-two-docs", "three-same-query"]


def BOUNDS(tier):
    return {"queries": [q for q, _ in QUERIES], "configs": CONFIGS, "max_iterators": 3,
            "interleaved_next_calls_per_iterator": {"k=2": 5, "k=3": 3} if tier == "quick" else {"k=2": 7, "k=3": 4},
            "thread_preemption_bound": 1 if tier == "quick" else 2,
            "thread_executions_cap_per_harness": None if tier == "quick" else 6000,
            "compile_only_harnesses": [w[0] for w in (W_HARNESS[:1] if tier == "quick" else W_HARNESS)],
            "compile_only_preemption_bound": 2, "compile_only_cap": None,
            "compile_only_bytecode_granularity": "bound 1 for the first two harnesses" if tier == "quick"
            else "bound 2 for the first harness, bound 1 for the others"}


def _twin(x):
    """the same value with every 1 / 0 replaced by true / false and vice versa: equal under Python's
    ==, a different JSON value"""
    if x is True or x is False:
        return int(x)
    if isinstance(x, int) and x in (0, 1):
        return bool(x)
    if isinstance(x, list):
        return [_twin(v) for v in x]
    if isinstance(x, dict):
        return {k: _twin(v) for k, v in x.items()}
    return x


_TWINS = {}


def twin_doc(qi):
    if qi not in _TWINS:
        _TWINS[qi] = _twin(QUERIES[qi][1])
    return _TWINS[qi]


def make_iters(config, qi):
    """-> (build, solitary results); build() compiles fresh environments / queries and returns the
    iterator factories, so that every explored schedule starts from the initial state (state kept on
    query or environment objects cannot leak from one schedule into the next)"""
    def build():
        return _build_iters(config, qi)

    sol = []
    for f in build():
        sol.append(_solitary(f))
    return build, sol


def _solitary(f):
    """items of a solitary run; an exception ends the run and is recorded as its last item"""
    out = []
    it = iter(f())
    while True:
        try:
            n = next(it)
        except StopIteration:
            break
        except Exception as e:  # noqa: BLE001
            out.append("raised " + type(e).__name__)
            break
        out.append((n.location, id(n.value)))
    return out


def _big_doc():
    """nested deeper than the interpreter's recursion limit of this process (3000, see mc/run.py):
    on an environment whose max_recursion_depth is larger still, a descendant query yields two
    shallow nodes and then fails (or completes) - in the same way solitary and interleaved"""
    if "d" not in _BIG:
        cur = [{"a": 2}]
        for _ in range(3300):
            cur = [cur]
        _BIG["d"] = [{"a": 0}, [{"a": 1}, cur]]
    return _BIG["d"]


_BIG = {}


def _build_iters(config, qi):
    JPE = impl.jp.JSONPathEnvironment
    text, doc = QUERIES[qi]
    other_text, other_doc = QUERIES[(qi + 1) % N_ITER_QUERIES]
    e1, e2 = JPE(), JPE()
    if config == "big-limit-env":
        class Big(JPE):
            max_recursion_depth = 20000

        eb = Big()
        qb, qb2 = eb.compile("$..a"), eb.compile("$..a")
        bd = _big_doc()
        return [lambda: qb.finditer(bd), lambda: qb2.finditer(bd)]
    q1 = e1.compile(text)
    if config == "same-query-same-doc":
        facs = [lambda: q1.finditer(doc), lambda: q1.finditer(doc)]
    elif config == "same-query-two-docs":
        facs = [lambda: q1.finditer(doc), lambda: q1.finditer(ALT_DOC)]
    elif config == "same-query-twin-docs":
        td = twin_doc(qi)
        facs = [lambda: q1.finditer(doc), lambda: q1.finditer(td)]
    elif config == "two-compilations-same-doc":
        q1b = e1.compile(text)
        q_other = e1.compile(other_text)
        facs = [lambda: q1.finditer(doc), lambda: q1b.finditer(doc), lambda: q_other.finditer(doc)]
        facs = facs[:2] if len(list(q_other.finditer(doc))) > 2 else facs
    elif config == "two-envs-same-doc":
        q2 = e2.compile(text)
        facs = [lambda: q1.finditer(doc), lambda: q2.finditer(doc)]
    elif config == "two-envs-two-docs":
        q2 = e2.compile(other_text)
        facs = [lambda: q1.finditer(doc), lambda: q2.finditer(other_doc)]
    else:
        facs = [lambda: q1.finditer(doc), lambda: q1.finditer(doc), lambda: q1.finditer(ALT_DOC)]
    return facs


def schedules(counts):
    """all interleavings: sequences over iterator ids, id i appearing counts[i] times"""
    total = sum(counts)

    def rec(prefix, rem):
        if len(prefix) == total:
            yield tuple(prefix)
            return
        for i, r in enumerate(rem):
            if r:
                rem[i] -= 1
                prefix.append(i)
                yield from rec(prefix, rem)
                prefix.pop()
                rem[i] += 1

    yield from rec([], list(counts))


def run_schedule(facs, sol, sched, close_at=None):
    """-> None | description.  close_at = (position, iterator, mode)"""
    facs = facs() if not isinstance(facs, list) else facs
    its = [iter(f()) for f in facs]
    pos = [0] * len(facs)
    closed = set()
    for step, i in enumerate(sched):
        if close_at is not None and close_at[0] == step:
            _, ci, mode = close_at
            if mode == "close" and hasattr(its[ci], "close"):
                its[ci].close()
            its[ci] = None
            closed.add(ci)
        if i in closed:
            continue
        try:
            n = next(its[i])
            got = (n.location, id(n.value))
        except StopIteration:
            got = "stop"
        except Exception as e:  # noqa: BLE001
            got = "raised " + type(e).__name__
        want = sol[i][pos[i]] if pos[i] < len(sol[i]) else "stop"
        if got != want:
            return {"step": step, "iterator": i, "item": pos[i], "expected": str(want)[:80], "observed": str(got)[:80]}
        pos[i] += 1
    return None


# ---- thread part ---------------------------------------------------------------------

T_HARNESS = [
    ("finditer/finditer shared query", 0, 0, "iter", "iter"),
    ("find/find shared env", 0, 0, "find", "find"),
    ("finditer nested filter shared query", 2, 2, "iter", "iter"),
    ("descendant shared query two docs", 1, 6, "iter", "find"),
    ("compile+find / compile+find shared env", 0, 4, "compile", "compile"),
    ("compile / finditer shared env", 5, 0, "compile", "iter"),
    ("root filter query shared", 6, 6, "iter", "iter"),
    ("match shared env", 4, 4, "find", "find"),
    ("compile invalid / compile valid shared env", 0, 0, "compile_bad", "compile"),
    ("match with two different patterns shared env", 4, 10, "find", "find"),
    ("search / match different patterns shared env", 11, 4, "find", "iter"),
    ("length+count / value shared env", 5, 12, "find", "find"),
    ("match() in a shared compiled query", 4, 4, "iter", "iter"),
    ("count() in a shared compiled query", 5, 5, "iter", "iter"),
    ("value() in a shared compiled query / find", 12, 12, "iter", "find"),
    ("match with '.' inside a class / search with '.' outside, CR LF subjects", 13, 14, "find", "find"),
    ("match with '.' inside a class, shared compiled query", 13, 13, "iter", "iter"),
    ("bare @ compared / bare @ as argument, two compiled queries", 15, 16, "iter", "iter"),
    ("bare @ as argument, shared compiled query / find", 16, 16, "iter", "find"),
    # the main thread holds a half-advanced iterator of a filter query on the shared environment
    # while two other threads evaluate / compile on it
    ("find / compile while an iterator of the environment is suspended half-way", 0, 2, "find_held", "compile"),
]


T3 = {20: (0, "iter"), 21: (4, "find")}  # thorough only: harness index -> (query, kind) of a third thread
T_HARNESS_3 = [
    ("three threads: finditer x2 shared query + find", 0, 0, "iter", "iter"),
    ("three threads: match two patterns + third pattern", 4, 10, "find", "find"),
]


# compile-only harnesses, small enough for ALL schedules with <= 2 preemptions (sliced over shards):
# (name, query of thread A, query of thread B, environment already used for these queries?)
W_HARNESS = [
    ("compile / compile, same text, environment already compiled it", "$", "$", True),
    ("compile / compile, two texts, environment already compiled both", "$", "$.a", True),
    ("compile / compile, same text, fresh environment", "$", "$", False),
    ("compile / compile, same filter text, environment already compiled it", "$[?@]", "$[?@]", True),
]
W_DOC = {"a": [1, {"a": 2}]}
W_SLICES = 16


def warm_bodies(w):
    _, ta, tb, warm = W_HARNESS[w]

    def obs(q):
        if not isinstance(q, impl.jp.JSONPathQuery):
            return q
        return (str(q), [(n.location, id(n.value)) for n in q.finditer(W_DOC)])

    def build():
        with ts.coop_locks():
            env = impl.jp.JSONPathEnvironment()
        if warm:
            for _ in range(2):
                env.compile(ta)
                env.compile(tb)
        return [lambda: env.compile(ta), lambda: env.compile(tb)]

    def make():
        make.latest = build()
        return make.latest

    make.post = lambda: [obs(b()) for b in make.latest]
    make.obs = obs
    seq = [obs(b()) for b in build()]
    return make, seq


def _slice_of(first, pre):
    (t, s), _to = min(pre)
    return (first + 2 * t + 4 * s) % W_SLICES


def thread_bodies(h):
    """-> (make, seq): make() builds a FRESH environment / shared compiled queries and returns the
    two thread bodies (so every explored schedule starts from the initial state); make.post() runs
    the same two bodies sequentially on the objects of the latest build.  seq = the sequential
    observations on a fresh build."""
    _, qa, qb, ka, kb = (T_HARNESS + T_HARNESS_3)[h]
    third = T3.get(h)

    def build():
        with ts.coop_locks():  # a lock the library creates for its environment yields instead of blocking
            env = impl.jp.JSONPathEnvironment()
        shared = {}

        def body(qi, kind):
            text, doc = QUERIES[qi]
            if kind == "find_held":
                held = iter(env.compile(text).finditer(doc))
                next(held)
                shared["held"] = held  # stays referenced and suspended for the whole execution
                kind = "find"
            if kind == "iter":
                q = shared.setdefault(("q", qi), env.compile(text))
                return lambda: [(n.location, id(n.value)) for n in q.finditer(doc)]
            if kind == "find":
                return lambda: [(n.location, id(n.value)) for n in env.find(text, doc)]
            if kind == "compile":
                return lambda: [(n.location, id(n.value)) for n in env.compile(text).find(doc)]
            if kind == "compile_bad":
                def f():
                    try:
                        env.compile(text + " ]")
                    except impl.JSONPathError as e:
                        return "err " + type(e).__name__ + " " + str(e)
                    return "accepted"
                return f
            raise KeyError(kind)

        bodies = [body(qa, ka), body(qb, kb)]
        bodies[0].keep_alive = shared  # a suspended iterator held in `shared` lives as long as the bodies
        if third is not None:
            bodies.append(body(11 if h == 21 else third[0], third[1]))
        return bodies

    def make():
        bodies = build()
        make.latest = bodies
        return bodies

    def post():
        return [b() for b in make.latest]

    make.post = post
    seq = [b() for b in build()]
    return make, seq


def pkg_dir():
    return os.path.dirname(os.path.abspath(impl.jp.__file__))


ABANDON = [
    ("$..a", {"a": 1, "b": {"a": [2, {"a": 3}]}}),
    ("$..[?@.a]", [{"a": 1}, [{"a": 2}, {"b": [{"a": 3}]}]]),
    ("$..*", [[1, [2]], {"k": [3]}]),
    ("$[?@..a]..a", [{"a": {"a": 1}}, {"b": {"a": [2]}}]),
    ("$.*[?count(@..*) > 0]", {"x": [[1], [[2]]], "y": {"k": [3]}}),
    ("$[*][*]", [[1, 2], {"k": 3}]),
]


def nesting(x):
    if isinstance(x, dict):
        return 1 + max([nesting(v) for v in x.values()], default=0)
    if isinstance(x, list):
        return 1 + max([nesting(v) for v in x], default=0)
    return 0


def abandon_case(qi, j, mode, repeat):
    """Take j items from a fresh iterator of a compiled query, abandon it (close / drop /
    find_one), `repeat` times; then a complete run must still equal the solitary run.  The
    environment's recursion limit equals the document's nesting, so any depth bookkeeping that
    leaks from an abandoned iteration shows at once."""
    text, doc = ABANDON[qi]

    class Tight(impl.jp.JSONPathEnvironment):
        max_recursion_depth = max(1, nesting(doc))

    env = Tight()
    q = env.compile(text)
    want = [(n.location, id(n.value)) for n in env.compile(text).finditer(doc)]
    for _ in range(repeat):
        if mode == "find_one":
            try:
                q.find_one(doc)
            except Exception as e:  # noqa: BLE001
                return {"during_find_one": _ + 1, "observed": "raised " + type(e).__name__}
            continue
        it = iter(q.finditer(doc))
        for _k in range(j):
            try:
                next(it)
            except StopIteration:
                break
            except Exception as e:  # noqa: BLE001
                return {"during_partial_iteration": _ + 1, "observed": "raised " + type(e).__name__}
        if mode == "close" and hasattr(it, "close"):
            it.close()
        del it
    try:
        got = [(n.location, id(n.value)) for n in q.finditer(doc)]
    except Exception as e:  # noqa: BLE001
        return {"after_abandoning": repeat, "expected_items": len(want), "observed": "raised " + type(e).__name__}
    if got != want:
        return {"after_abandoning": repeat, "expected_items": len(want), "observed_items": len(got)}
    return None


def shards(tier):
    out = [{"part": "abandon", "q": qi, "tier": tier} for qi in range(len(ABANDON))]
    out += [{"part": "iters", "q": qi, "config": c, "cap": {"2": 5, "3": 3} if tier == "quick" else {"2": 7, "3": 4}}
           for qi in range(N_ITER_QUERIES) for c in CONFIGS]
    out += [{"part": "iters", "q": 0, "config": "big-limit-env", "cap": {"2": 3, "3": 3}}]
    out += [{"part": "threads", "h": h, "tier": tier} for h in range(len(T_HARNESS))]
    ws = [0] if tier == "quick" else range(len(W_HARNESS))
    out += [{"part": "warm", "w": w, "slice": i, "tier": tier} for w in ws for i in range(W_SLICES)]
    if tier == "quick":
        # quick: the first two compile-only harnesses at bytecode granularity, <= 1 preemption
        out += [{"part": "warm", "w": w, "slice": i, "tier": tier, "opcodes": True, "bound": 1}
                for w in (0, 1) for i in range(W_SLICES)]
    if tier == "thorough":
        # the same compile-only harnesses at bytecode granularity (a scheduling point before every
        # instruction of package code): all schedules with <= 1 preemption, <= 2 for the first harness
        out += [{"part": "warm", "w": w, "slice": i, "tier": tier, "opcodes": True, "bound": 2 if w == 0 else 1}
                for w in range(len(W_HARNESS)) for i in range(W_SLICES)]
        out += [{"part": "threads", "h": len(T_HARNESS) + k, "tier": tier, "bound": 1} for k in range(len(T_HARNESS_3))]
    return out


def check_case(case):
    if case["part"] == "abandon":
        bad = abandon_case(case["q"], case["j"], case["mode"], case["repeat"])
        if bad:
            return violation("iterator-interference", case, "complete run equals the solitary run", bad, "interference")
        return None
    if case["part"] == "iters":
        facs, sol = make_iters(case["config"], case["q"])
        ca = case.get("close_at")
        bad = run_schedule(facs, sol, tuple(case["schedule"]), tuple(ca) if ca else None)
        if bad:
            return violation("iterator-interference", case, "items of the solitary run", bad, "interference")
        return None
    if case["part"] == "warm":
        make, seq = warm_bodies(case["w"])
    else:
        make, seq = thread_bodies(case["h"])
    obs_of = getattr(make, "obs", lambda x: x)
    pre = tuple(((t, s), to) for t, s, to in case["preemptions"])
    try:
        if case.get("opcodes"):
            ts.Execution(make(), pkg_dir(), 0, (), opcodes=True).run()  # see threads.explore: warm-up
        exe = ts.Execution(make(), pkg_dir(), case["first"], pre, opcodes=bool(case.get("opcodes"))).run()
    except ts.Hang as h:
        return violation("thread-hang", case, "terminates", str(h), "interference")
    obs = [exe.errors[i] or obs_of(exe.results[i]) for i in range(len(seq))]
    if obs != seq:
        return violation("thread-interference", case, "sequential observations",
                         {"thread_results_differ": [i for i in range(len(seq)) if obs[i] != seq[i]],
                          "errors": exe.errors}, "interference")
    try:
        post = make.post()
    except Exception as e:  # noqa: BLE001
        post = "raised " + type(e).__name__
    if post != seq:
        return violation("thread-interference", case, "sequential observations",
                         {"after_the_concurrent_run_sequential_results_differ": True}, "interference")
    return None


def run_shard(desc):
    sh = Shard(PROPERTY)
    if desc["part"] == "abandon":
        qi = desc["q"]
        text, doc = ABANDON[qi]
        n = len(impl.jp.find(text, doc))
        for mode in ("drop", "close", "find_one"):
            for j in (range(0, n + 2) if mode != "find_one" else [1]):
                for repeat in ((1, 2, 3, 5) if desc["tier"] == "quick" else (1, 2, 3, 5, 8, 13, 40, 130)):
                    sh.states += repeat + 1
                    sh.transitions += repeat * (j + 1) + n
                    sh.traces += 1
                    sh.evaluations += 1
                    sh.nontrivial += 1
                    bad = abandon_case(qi, j, mode, repeat)
                    if bad:
                        sh.violation(violation("iterator-interference",
                                               {"part": "abandon", "q": qi, "query": text, "j": j, "mode": mode,
                                                "repeat": repeat},
                                               "complete run equals the solitary run", bad, "interference"))
        sh.sample({"abandon": text, "doc": impl.jsonable(doc)}, limit=1)
        return sh
    if desc["part"] == "iters":
        facs, sol = make_iters(desc["config"], desc["q"])
        k = len(sol)
        cap = int(desc.get("cap", {"2": 5, "3": 3})[str(k)])
        # all interleavings of the first `cap` next() calls of every iterator; the remaining calls
        # are appended iterator by iterator (drain), still compared item by item
        counts = [min(len(s) + 1, cap) for s in sol]
        drain = tuple(i for i, s in enumerate(sol) for _ in range(len(s) + 1 - counts[i]))
        for head in schedules(counts):
            sched = head + drain
            sh.states += len(sched) + 1
            sh.transitions += len(sched)
            sh.traces += 1
            sh.evaluations += 1
            sh.nontrivial += 1
            bad = run_schedule(facs, sol, sched)
            if bad:
                sh.violation(violation("iterator-interference",
                                       {"part": "iters", "q": desc["q"], "config": desc["config"],
                                        "schedule": list(sched)},
                                       "items of the solitary run", bad, "interference"))
            if k == 2 and desc["config"] != "big-limit-env":
                for p in range(len(head) + 1):
                    for ci in range(k):
                        for mode in ("close", "drop"):
                            sh.traces += 1
                            sh.evaluations += 1
                            sh.transitions += 1
                            bad = run_schedule(facs, sol, sched, (p, ci, mode))
                            if bad:
                                sh.violation(violation(
                                    "iterator-interference",
                                    {"part": "iters", "q": desc["q"], "config": desc["config"],
                                     "schedule": list(sched), "close_at": [p, ci, mode]},
                                    "items of the solitary run", bad, "interference"))
        sh.sample({"query": QUERIES[desc["q"]][0], "config": desc["config"], "results_per_iterator": [c - 1 for c in counts]},
                  limit=1)
    else:
        tier = desc["tier"]
        warm = desc["part"] == "warm"
        if warm:
            h = desc["w"]
            make, seq = warm_bodies(h)
        else:
            h = desc["h"]
            make, seq = thread_bodies(h)
        obs_of = getattr(make, "obs", lambda x: x)

        def check(exe):
            obs = [exe.errors[i] or obs_of(exe.results[i]) for i in range(len(seq))]
            if obs != seq:
                return {"thread_results_differ": [i for i in range(len(seq)) if obs[i] != seq[i]], "errors": exe.errors}
            # the shared objects must also be left intact: the same bodies, run sequentially
            # after the concurrent execution, still give the sequential observations
            try:
                post = make.post()
            except Exception as e:  # noqa: BLE001
                post = "raised " + type(e).__name__
            if post != seq:
                return {"after_the_concurrent_run_sequential_results_differ": True}
            return None

        if warm:
            sl = desc["slice"]
            found, stats = ts.explore(make, pkg_dir(), desc.get("bound", 2), check,
                                      keep=lambda first, pre: _slice_of(first, pre) == sl,
                                      opcodes=desc.get("opcodes", False))
            if desc.get("opcodes"):
                sh.bump("executions_at_bytecode_granularity", stats["executions"])
        else:
            found, stats = ts.explore(make, pkg_dir(), desc.get("bound", 1 if tier == "quick" else 2), check,
                                      max_executions=None if tier == "quick" else 6000)
        sh.states += stats["points"]
        sh.transitions += stats["points"]
        sh.traces += stats["executions"]
        sh.evaluations += stats["executions"]
        sh.nontrivial += max(0, stats["executions"] - 2)
        sh.bump("thread_executions", stats["executions"])
        sh.extra["preemption_bound_completed_%s%d" % ("w" if warm else "h", h)] = stats["bound_completed"]
        if stats.get("capped"):
            sh.bump("thread_harness_capped_not_exhaustive_at_bound_2")
        for schedule, bad in found:
            sh.violation(violation("thread-interference",
                                   {"part": "warm", "w": h, "first": schedule["first"],
                                    "preemptions": schedule["preemptions"], "opcodes": bool(desc.get("opcodes"))} if warm else
                                   {"part": "threads", "h": h, "first": schedule["first"],
                                    "preemptions": schedule["preemptions"]},
                                   "sequential observations", bad, "interference"))
        sh.sample({"harness": W_HARNESS[h][0] if warm else (T_HARNESS + T_HARNESS_3)[h][0], "executions": stats["executions"],
                   "scheduling_points_total": stats["points"]}, limit=1)
    return sh
