"""C18 — descendant traversal is bounded: deep / cyclic data raises
JSONPathRecursionError.

Space: limits 1..5 x both modes x every container skeleton with <= 6 (quick) / 7
(thorough) containers in three container flavours (arrays, objects, alternating) and two
leaf flavours (scalar / nothing at the bottom); chains of nesting limit-1, limit,
limit+1, limit+2 for limits 1..5, 100, 200 with the deep branch first / middle / last
and array / object / mixed links; chains 1 000, 6 000 and 60 000 levels deep for limits 1, 5,
100; cyclic structures (self-loop through an array,
through an object, 2- and 3-cycles mixing both, a cycle below a finite prefix,
branching cycles for small limits) and acyclic structures whose containers are shared
(reachable by several paths), which are ordinary data.  In nondeterministic mode every input is explored
over its complete choice tree when the limit is <= 4 (<= 5 thorough) and with <= 2
deviations from the all-zero answer sequence otherwise.
Oracle: nesting(d) = number of containers on the deepest root-to-leaf path.  nesting <=
limit => completes with R3's result (member of the permitted set in nondeterministic
mode); nesting > limit or cyclic => JSONPathRecursionError, within the watchdog and
a node budget; never RecursionError / any other exception.
"""
import sys

from mc.core import impl
from mc.core.explore import CaseTimeout, Shard, violation, with_timeout
from mc.ref import eval as ev
from mc.ref import typing as rt
from mc.sched import choice

PROPERTY = "C18"
RULE = (
    "limits {1..5} x all container skeletons with <=6/7 containers x 3 container flavours x 2 leaf "
    "flavours, chains at nesting limit-1..limit+2 for limits {1..5,100,200} x 3 link flavours x 3 "
    "positions of the deep branch, 12 cyclic structures x limits {1..4,100}; deterministic mode: one "
    "execution each; nondeterministic mode: the complete choice tree (small limits) or all leaves "
    "with <=2 deviations; non-trivial = inputs whose nesting is within 1 of the limit or cyclic"
)
ASSUMPTIONS = [
    "watchdog 5 s per execution; node budget = 200 000 yielded nodes",
    "branching cycles are explored for limits <= 4 only (a breadth-first schedule of a branching cycle needs b^limit steps)",
    "interpreter recursion limit is the CPython default (1000)",
]
BUDGET = 200000
TIMEOUT = 5.0


def BOUNDS(tier):
    return {"skeleton_containers_max": 6 if tier == "quick" else 7,
            "executions_cap_per_nondeterministic_input": 3000 if tier == "quick" else 20000, "limits_small": [1, 2, 3, 4, 5],
            "limits_large": [100, 200], "full_choice_tree_up_to_limit": 4 if tier == "quick" else 5,
            "deviation_bound_above": 1 if tier == "quick" else 2}


# ---- inputs -------------------------------------------------------------------------


def skeleton_shapes(nmax):
    import functools

    @functools.lru_cache(maxsize=None)
    def forests(n):
        if n == 0:
            return ((),)
        out = []
        for first in range(1, n + 1):
            for t in trees(first):
                for rest in forests(n - first):
                    out.append((t,) + rest)
        return tuple(out)

    @functools.lru_cache(maxsize=None)
    def trees(n):
        return tuple(forests(n - 1))

    out = []
    for n in range(1, nmax + 1):
        out += list(trees(n))
    return out


def build(shape, flavour, leaf, depth=0):
    """flavour: 'list' | 'dict' | 'alt'; leaf: 'scalar' | 'empty'"""
    kids = [build(c, flavour, leaf, depth + 1) for c in shape]
    if not kids and leaf == "scalar":
        kids = [depth]
    as_dict = flavour == "dict" or (flavour == "alt" and depth % 2 == 0)
    if as_dict:
        return {f"k{i}": k for i, k in enumerate(kids)}
    return kids


def nesting(shape):
    return 1 + max([nesting(c) for c in shape], default=0)


def chain(n, link, bottom):
    """n nested containers; bottom: 'scalar' | 'empty' (innermost container empty)"""
    leaves = {"scalar": 7, "str": "leaf", "null": None, "true": True, "float": 1.5}
    cur = leaves.get(bottom)
    has_leaf = bottom in leaves
    if link in ("odict", "sublist"):
        # every container an instance of a SUBCLASS of dict / list
        import collections
        from mc.core.impl import SubList
        for i in range(n):
            inner = [cur] if (has_leaf or i > 0) else []
            if link == "odict":
                cur = collections.OrderedDict([("a", inner[0])]) if inner else collections.OrderedDict()
            else:
                cur = SubList(inner)
        return cur
    for i in range(n):
        as_dict = link == "dict" or (link == "alt" and i % 2 == 0)
        inner = [cur] if (has_leaf or i > 0) else []
        cur = {"a": inner[0]} if (as_dict and inner) else ({} if as_dict else inner)
    return cur


def positioned(deep, where):
    if where == "first":
        return [deep, 0, [1]]
    if where == "middle":
        return [0, deep, [1]]
    return [[1], 0, deep]


def cyclic(name):
    if name == "self-list":
        a = []
        a.append(a)
        return a
    if name == "self-dict":
        d = {}
        d["a"] = d
        return d
    if name == "two-cycle":
        a, d = [], {}
        a.append(d)
        d["a"] = a
        return a
    if name == "three-cycle":
        a, d, b = [], {}, []
        a.append(d)
        d["x"] = b
        b.append(a)
        return d
    if name == "below-prefix":
        a = [1, 2]
        a.append(a)
        return {"p": [0, {"q": a}]}
    if name == "below-prefix-dict":
        d = {"x": 1}
        d["self"] = d
        return [[d], 0]
    if name == "sibling-then-cycle":
        a = []
        a.append(a)
        return [[1], [[2]], a]
    if name == "cycle-then-sibling":
        a = []
        a.append(a)
        return [a, [1], [[2]]]
    if name == "branching-list":
        a = []
        a.append(a)
        a.append(a)
        return a
    if name == "branching-dict":
        d = {}
        d["a"] = d
        d["b"] = d
        return d
    if name == "cycle-to-root":
        root = {"a": [1]}
        root["a"].append(root)
        return root
    if name == "diamond-cycle":
        a = []
        d = {"l": a, "r": a}
        a.append(d)
        return d
    raise KeyError(name)


CYCLES = ["self-list", "self-dict", "two-cycle", "three-cycle", "below-prefix", "below-prefix-dict",
          "sibling-then-cycle", "cycle-then-sibling", "cycle-to-root"]
BRANCHING = ["branching-list", "branching-dict", "diamond-cycle"]

_ENVS = {}


def env(limit, nd):
    key = (limit, nd)
    if key not in _ENVS:
        from jsonpath_rfc9535 import JSONPathEnvironment

        class E(JSONPathEnvironment):
            max_recursion_depth = limit
            nondeterministic = nd

        _ENVS[key] = E()
    return _ENVS[key]


def modules():
    from jsonpath_rfc9535 import segments, selectors
    return [segments, selectors]


def one_run(cq, doc):
    """-> ("ok", locations) | ("rec",) | ("bad", what)"""
    from jsonpath_rfc9535 import JSONPathRecursionError

    def go():
        out = []
        for n in cq.finditer(doc):
            out.append(n.location)
            if len(out) > BUDGET:
                return ("bad", "node budget exceeded")
        return ("ok", tuple(out))

    try:
        return with_timeout(go, TIMEOUT)
    except JSONPathRecursionError:
        return ("rec",)
    except CaseTimeout:
        return ("bad", "timeout")
    except RecursionError:
        return ("bad", "RecursionError")
    except Exception as e:  # noqa: BLE001
        return ("bad", type(e).__name__)


def make_doc(spec):
    k = spec["kind"]
    if k == "skeleton":
        return build(tuple_shape(spec["shape"]), spec["flavour"], spec["leaf"]), nesting(tuple_shape(spec["shape"]))
    if k == "chain":
        deep = chain(spec["n"], spec["link"], spec["bottom"])
        if spec["where"] == "alone":
            return deep, spec["n"]
        if spec["where"] == "wrapped":
            return [deep], spec["n"] + 1
        return positioned(deep, spec["where"]), spec["n"] + 1
    if k == "cycle":
        return cyclic(spec["name"]), None
    if k == "dag":
        # shared, non-cyclic containers: the same object is reachable by several paths
        leaf = [7] if spec["shape"] != "empty" else []
        mid = {"p": leaf, "q": leaf}
        if spec["shape"] == "wide":
            return [mid, mid, leaf, {"r": mid}], 4
        return {"a": mid, "b": [mid, leaf]}, 4
    raise KeyError(k)


def tuple_shape(x):
    return tuple(tuple_shape(c) for c in x)


def compiled(limit, nd, query, how="subclass"):
    """the limit / mode configured by subclassing, or assigned on a plain instance after the query
    was compiled (the bound is the one configured on the environment when the query is applied)"""
    if how == "subclass":
        return env(limit, nd).compile(query)
    from jsonpath_rfc9535 import JSONPathEnvironment
    if how == "instance-before-compile":
        e = JSONPathEnvironment()
        e.max_recursion_depth = limit
        e.nondeterministic = nd
        return e.compile(query)
    if how == "subclass-of-subclass":
        class Base(JSONPathEnvironment):
            max_recursion_depth = 7
            nondeterministic = not nd

        class Derived(Base):
            max_recursion_depth = limit
            nondeterministic = nd

        return Derived().compile(query)
    if how == "class-attribute-set-later":
        # the limit is assigned on the SUBCLASS after an instance exists and the query is compiled
        class Late(JSONPathEnvironment):
            pass

        e = Late()
        cq = e.compile(query)
        Late.max_recursion_depth = limit
        Late.nondeterministic = nd
        return cq
    e = JSONPathEnvironment()
    cq = e.compile(query)
    e.max_recursion_depth = limit
    e.nondeterministic = nd
    return cq


def check_input(spec, limit, nd, query, full_tree, sh=None, dev=2, cap=20000, how="subclass"):
    """-> list of violations"""
    doc, nest = make_doc(spec)
    cq = compiled(limit, nd, query, how)
    expect_ok = nest is not None and nest <= limit
    case = {"doc": spec, "limit": limit, "nondeterministic": nd, "query": query}
    if how != "subclass":
        case["configured"] = how
    out = []
    if expect_ok:
        det = _reference(query, doc)
    if not nd:
        r = one_run(cq, doc)
        if sh is not None:
            sh.states += 1
            sh.transitions += 1
            sh.traces += 1
            sh.evaluations += 1
        out += judge(case, r, expect_ok, det if expect_ok else None, None, nest)
        return out
    with choice.controlled(modules()) as ctl:
        for trace, r in ctl.explore(lambda: one_run(cq, doc), max_executions=cap,
                                    deviation_bound=None if full_tree else dev):
            c2 = dict(case)
            c2["choices"] = [a for a, _ in trace]
            vs = judge(c2, r, expect_ok, det if expect_ok else None, "nd", nest)
            if vs:
                out += vs
                break  # first (fewest-deviation) counterexample of this input
        if sh is not None:
            sh.states += ctl.points + ctl.executions
            sh.transitions += ctl.points
            sh.traces += ctl.executions
            sh.evaluations += ctl.executions
            sh.bump("nd_inputs")
            if ctl.executions >= cap:
                sh.bump("nd_inputs_capped_not_exhaustive")
    return out


def _reference(query, doc):
    """the reference result, computed under a generous interpreter limit of its own (the model
    recurses too; the limit in force while the implementation runs stays 1000)"""
    old = sys.getrecursionlimit()
    sys.setrecursionlimit(max(old, 50000))
    try:
        return tuple(loc for loc, _ in ev.evaluate(rt.classify(query).ast, doc))
    finally:
        sys.setrecursionlimit(old)


def judge(case, r, expect_ok, det, nd, nest):
    if r[0] == "bad":
        return [violation("not-bounded", case, "completes or raises JSONPathRecursionError", r[1], "crash")]
    if expect_ok:
        if r[0] == "rec":
            return [violation("raised-within-limit", case, {"nesting": nest, "completes": True},
                              "JSONPathRecursionError", "raised-within-limit")]
        if nd is None:
            if r[1] != det:
                return [violation("wrong-result", case, {"locations": len(det)}, {"locations": len(r[1])}, "wrong")]
        else:
            if sorted(map(repr, r[1])) != sorted(map(repr, det)):
                return [violation("wrong-result", case, {"nodes": len(det)}, {"nodes": len(r[1])}, "wrong")]
        return []
    if r[0] == "ok":
        return [violation("completed-beyond-limit", case, {"nesting": nest if nest is not None else "cyclic",
                                                           "raises": "JSONPathRecursionError"},
                          {"completed_with_nodes": len(r[1])}, "completed-beyond-limit")]
    return []


def check_case(case):
    old = sys.getrecursionlimit()
    sys.setrecursionlimit(1000)
    try:
        if "interpreter_recursion_limit" in case:
            case = dict(case)
            lim = case.pop("interpreter_recursion_limit")
            sys.setrecursionlimit(lim)
            try:
                vs = check_input(case["doc"], case["limit"], case["nondeterministic"], case["query"], full_tree=False, dev=0, cap=3)
            finally:
                sys.setrecursionlimit(1000)
            return vs[0] if vs else None
        if "history" in case:
            return run_history(case["limit"], case["nondeterministic"], case["query"], tuple(case["history"]))
        spec, limit, nd, query = case["doc"], case["limit"], case["nondeterministic"], case["query"]
        if case.get("sub"):
            tmp = Shard(PROPERTY)
            do_sub(tmp, spec, limit, nd, query, 5)
            return tmp.violations[0] if tmp.violations else None
        how = case.get("configured", "subclass")
        if "choices" in case:
            doc, nest = make_doc(spec)
            cq = compiled(limit, nd, query, how)
            expect_ok = nest is not None and nest <= limit
            det = None
            if expect_ok:
                det = _reference(query, doc)
            with choice.controlled(modules()) as ctl:
                ctl.chooser.start(case["choices"])
                try:
                    r = one_run(cq, doc)
                except choice.Divergence as e:
                    return violation("not-bounded", case, "replayable", str(e), "crash")
            vs = judge(case, r, expect_ok, det, "nd", nest)
            return vs[0] if vs else None
        vs = check_input(spec, limit, nd, query, full_tree=(limit <= 5), how=how)
        for v in vs:
            if v["case"].get("choices") is None:
                return v
        return vs[0] if vs else None
    finally:
        sys.setrecursionlimit(old)


# ---- histories on ONE compiled query: the bound concerns each application, whatever happened to
# the query object before (a run that raised, a find_one, an abandoned iterator)
HIST_OPS = ["full_at_limit", "full_too_deep", "find_one_at_limit", "partial_1", "partial_3", "full_cyclic",
            "full_shallow", "find_one_too_deep", "full_same_object_grown"]
HIST_QUERIES = ["$..*", "$..a", "$[?@..a]", "$..[?@..a]", "$[?$..a]", "$[?count($..*) > 0]"]


def hist_doc(op, limit, wrap):
    """-> (document, expected to complete?)   wrap = the query's filter looks one level down"""
    n = limit
    if op in ("full_too_deep", "find_one_too_deep"):
        n = limit + 1
    if op == "full_shallow":
        n = 1
    if op == "full_cyclic":
        d = cyclic("two-cycle")
        return ([d] if wrap else d), False
    d = chain(n, "alt", "scalar")
    return ([d, 0] if wrap else d), n <= limit


def run_history(limit, nd, query, ops):
    """-> None | violation; every application is judged like an application of a fresh query"""
    cq = env(limit, nd).compile(query)
    wrap = query.startswith("$[?@")
    # ONE document object that the caller keeps and grows in place: one level deeper every time
    # the operation full_same_object_grown occurs
    # (starting two levels below the limit, so that complete runs within the limit come first)
    rootq = (not wrap) and query.startswith("$[?")
    e0 = max(limit - 2, 1)
    c = e0 - (1 if rootq else 0)
    inner = chain(c, "alt", "scalar") if c > 0 else 7
    same = {"doc": [inner, 0] if (wrap or rootq) else inner, "n": e0}
    for i, op in enumerate(ops):
        if op == "full_same_object_grown":
            # wrap the innermost scalar once more: find the deepest container and nest it
            cur = same["doc"]
            while True:
                nxt = None
                for v in (cur.values() if isinstance(cur, dict) else cur):
                    if isinstance(v, (dict, list)):
                        nxt = v
                        break
                if nxt is None:
                    break
                cur = nxt
            if isinstance(cur, dict):
                k = next(iter(cur))
                cur[k] = [cur[k]]
            else:
                cur[0] = {"a": cur[0]}
            same["n"] += 1
            doc, expect_ok = same["doc"], same["n"] <= limit
        else:
            doc, expect_ok = hist_doc(op, limit, wrap)
        case = {"history": list(ops), "limit": limit, "nondeterministic": nd, "query": query}
        with choice.controlled(modules()) as ctl:
            ctl.chooser.start([])
            if op.startswith("find_one"):
                try:
                    cq.find_one(doc)
                except Exception:  # noqa: BLE001  (judged by the complete runs that follow)
                    pass
                continue
            if op.startswith("partial"):
                it = iter(cq.finditer(doc))
                try:
                    for _ in range(int(op[-1])):
                        next(it)
                except Exception:  # noqa: BLE001
                    pass
                del it
                continue
            r = one_run(cq, doc)
            fresh = one_run(env(limit, nd).compile(query), doc)
        if r[0] == "bad":
            return violation("not-bounded", dict(case, step=i), "completes or raises JSONPathRecursionError", r[1], "crash")
        if r[0] != fresh[0] or (r[0] == "ok" and sorted(map(repr, r[1])) != sorted(map(repr, fresh[1]))):
            return violation("history-changes-the-bound", dict(case, step=i), {"fresh_query": fresh[0]},
                             {"used_query": r[0]}, "history")
        if (r[0] == "ok") != expect_ok:
            return violation("raised-within-limit" if expect_ok else "completed-beyond-limit", dict(case, step=i),
                             "completes" if expect_ok else "JSONPathRecursionError", r[0],
                             "raised-within-limit" if expect_ok else "completed-beyond-limit")
    return None


def shards(tier):
    nmax = 6 if tier == "quick" else 7
    shapes = skeleton_shapes(nmax)
    out = []
    step = 3
    for lo in range(0, len(shapes), step):
        out.append({"part": "skeleton", "lo": lo, "hi": min(lo + step, len(shapes)), "nmax": nmax, "tier": tier})
    for limit in (1, 2, 3, 4, 5, 100, 200, 450, 700):
        for dn in (-1, 0, 1, 2):
            for link in ("list", "dict", "alt"):
                out.append({"part": "chain", "limit": limit, "dn": dn, "link": link, "tier": tier})
    for limit in (1, 5, 100):
        for n in (1000, 6000, 60000):
            out.append({"part": "verydeep", "limit": limit, "n": n, "tier": tier})
    out.append({"part": "dag", "tier": tier})
    out.append({"part": "instance", "tier": tier})
    out.append({"part": "infilter", "tier": tier})
    out.append({"part": "lowstack", "tier": tier})
    for qi in range(len(HIST_QUERIES)):
        for nd in (False, True):
            out.append({"part": "history", "q": qi, "nd": nd, "tier": tier})
    for name in CYCLES + BRANCHING:
        for limit in ((1, 2, 3, 4) if name in BRANCHING else (1, 2, 3, 4, 5, 100)):
            out.append({"part": "cycle", "name": name, "limit": limit, "tier": tier})
    return out


def to_list(shape):
    return [to_list(c) for c in shape]


def run_shard(desc):
    sh = Shard(PROPERTY)
    old = sys.getrecursionlimit()
    sys.setrecursionlimit(1000)
    tier = desc["tier"]
    full_upto = 4 if tier == "quick" else 5
    try:
        def do(spec, limit, nd, query, near):
            if near:
                sh.nontrivial += 1
            big = limit > 200  # the nondeterministic walk is iterative: one default-choice execution there
            for v in check_input(spec, limit, nd, query, full_tree=(limit <= full_upto), sh=sh,
                                 dev=(0 if big else 1 if tier == "quick" else 2),
                                 cap=(3 if big else 3000 if tier == "quick" else 20000)):
                sh.violation(v)
            sh.sample({"doc": spec, "limit": limit, "nondeterministic": nd, "query": query}, limit=1)

        if desc["part"] == "skeleton":
            shapes = skeleton_shapes(desc["nmax"])[desc["lo"]:desc["hi"]]
            for shape in shapes:
                nest = nesting(shape)
                for flavour in ("list", "dict", "alt"):
                    for leaf in ("scalar", "empty"):
                        spec = {"kind": "skeleton", "shape": to_list(shape), "flavour": flavour, "leaf": leaf}
                        for limit in (1, 2, 3, 4, 5):
                            if limit > nest + 1:
                                continue
                            for nd in (False, True):
                                do(spec, limit, nd, "$..*", abs(nest - limit) <= 1)
        elif desc["part"] == "infilter":
            # a descendant segment inside a filter query / function argument: the descent starts at the
            # child under test, so the nesting it sees is that of the child; beyond the limit the error is
            # still JSONPathRecursionError
            for limit in (1, 2, 3, 100):
                for n in (limit - 1, limit, limit + 1, limit + 2):
                    if n < 1:
                        continue
                    for link in ("list", "dict"):
                        for bottom in ("scalar", "str"):
                            spec = {"kind": "chain", "n": n, "link": link, "bottom": bottom, "where": "wrapped"}
                            for nd in (False, True):
                                for q in ("$[?@..a]", "$[?count(@..*) >= 0]", "$[?value(@..zz) == 1 || length(value(@..[0])) > 9]",
                                          "$[?@[?@..a] || !@..zz]"):
                                    do_sub(sh, spec, limit, nd, q, full_upto)
        elif desc["part"] == "instance":
            # limit and mode assigned on a plain environment instance AFTER compiling the query
            for limit in (1, 2, 3, 5, 150):
                for n in (limit - 1, limit, limit + 1):
                    if n < 1:
                        continue
                    for link in ("list", "alt", "odict", "sublist"):
                        spec = {"kind": "chain", "n": n, "link": link, "bottom": "scalar", "where": "alone"}
                        for nd in (False, True):
                            for q in ("$..*", "$..a"):
                                for how in ("instance-after-compile", "instance-before-compile", "subclass-of-subclass",
                                            "class-attribute-set-later"):
                                    sh.nontrivial += 1
                                    for v in check_input(spec, limit, nd, q, full_tree=(limit <= full_upto), sh=sh,
                                                         dev=1, cap=3000, how=how):
                                        sh.violation(v)
            for name in ("self-list", "two-cycle"):
                for limit in (2, 150):
                    for nd in (False, True):
                        for v in check_input({"kind": "cycle", "name": name}, limit, nd, "$..*", full_tree=(limit <= full_upto),
                                             sh=sh, dev=1, cap=3000, how="instance-after-compile"):
                            sh.violation(v)
        elif desc["part"] == "lowstack":
            # the application lowered the interpreter's recursion limit (to 260): the bound is still the
            # one configured on the environment, data within it (well inside the interpreter limit) completes
            for limit in (100, 150):
                for n in (limit - 40, limit - 1, limit, limit + 1):
                    for link in ("list", "alt"):
                        spec = {"kind": "chain", "n": n, "link": link, "bottom": "scalar", "where": "alone"}
                        for nd in (False, True):
                            for q in ("$..*", "$..a"):
                                sh.nontrivial += 1
                                sys.setrecursionlimit(260)
                                try:
                                    vs = check_input(spec, limit, nd, q, full_tree=False, sh=sh, dev=0, cap=3)
                                finally:
                                    sys.setrecursionlimit(1000)
                                for v in vs:
                                    v["case"]["interpreter_recursion_limit"] = 260
                                    sh.violation(v)
        elif desc["part"] == "history":
            import itertools
            query = HIST_QUERIES[desc["q"]]
            for limit in (2, 3, 5) if tier == "quick" else (1, 2, 3, 4, 5, 8):
                for k in (1, 2, 3):
                    for ops in itertools.product(HIST_OPS, repeat=k):
                        if not ops[-1].startswith("full"):
                            continue  # a history is judged at its complete runs
                        sh.states += k
                        sh.transitions += k
                        sh.traces += 1
                        sh.evaluations += 1
                        sh.nontrivial += 1
                        v = run_history(limit, desc["nd"], query, ops)
                        if v:
                            sh.violation(v)
            sh.sample({"history": ["partial_1", "full_too_deep", "full_at_limit"], "query": query}, limit=1)
        elif desc["part"] == "dag":
            for shape in ("deep", "wide", "empty"):
                for limit in (3, 4, 5, 100):
                    for nd in (False, True):
                        for q in ("$..*", "$..p", "$..[0]"):
                            do({"kind": "dag", "shape": shape}, limit, nd, q, True)
        elif desc["part"] == "verydeep":
            # data nested thousands of levels below the limit: still JSONPathRecursionError, never
            # the interpreter's RecursionError (no reference result needed: the input is over the limit)
            for link in ("list", "dict", "alt"):
                for bottom in ("scalar", "empty"):
                    for where in ("alone", "last"):
                        spec = {"kind": "chain", "n": desc["n"], "link": link, "bottom": bottom, "where": where}
                        for nd in (False, True):
                            for q in ("$..*", "$..a"):
                                do(spec, desc["limit"], nd, q, True)
        elif desc["part"] == "chain":
            limit = desc["limit"]
            for n in (limit + desc["dn"],):
                if n < 1:
                    continue
                big = limit > 200  # every run costs O(depth^2) there: fewer shapes
                for link in (desc["link"],):
                    for bottom in (("scalar", "empty") if big else ("scalar", "empty", "str", "null")):
                        for where in (("alone", "last") if big else ("alone", "first", "middle", "last")):
                            spec = {"kind": "chain", "n": n, "link": link, "bottom": bottom, "where": where}
                            for nd in (False, True):
                                for q in (("$..*", "$..a") if big else
                                          ("$..*", "$..a", "$[*]..[0]" if where != "alone" else "$..[0]")):
                                    if q.startswith("$[*]"):
                                        # the descent starts one level down: nesting seen by the segment is n
                                        spec2 = dict(spec)
                                        do_sub(sh, spec2, limit, nd, q, full_upto)
                                    else:
                                        do(spec, limit, nd, q, True)
        else:
            name = desc["name"]
            for limit in (desc["limit"],):
                for nd in (False, True):
                    for q in ("$..*", "$..a", "$..[0]"):
                        do({"kind": "cycle", "name": name}, limit, nd, q, True)
    finally:
        sys.setrecursionlimit(old)
    return sh


def do_sub(sh, spec, limit, nd, query, full_upto):
    """`$[*]..[0]` on a positioned chain: the descendant segment is applied to each child of the
    root, so the nesting it sees is that of the deepest child (= n)."""
    doc, nest = make_doc(spec)
    sub_nest = nest - 1
    e = env(limit, nd)
    cq = e.compile(query)
    expect_ok = sub_nest <= limit
    case = {"doc": spec, "limit": limit, "nondeterministic": nd, "query": query, "sub": True}
    sh.nontrivial += 1
    det = None
    if expect_ok:
        det = _reference(query, doc)
    if not nd:
        r = one_run(cq, doc)
        sh.states += 1
        sh.transitions += 1
        sh.traces += 1
        sh.evaluations += 1
        for v in judge(case, r, expect_ok, det, None, sub_nest):
            sh.violation(v)
        return
    with choice.controlled(modules()) as ctl:
        for trace, r in ctl.explore(lambda: one_run(cq, doc), max_executions=20000,
                                    deviation_bound=None if limit <= full_upto else 1):
            vs = judge(case, r, expect_ok, det, "nd", sub_nest)
            if vs:
                vs[0]["case"] = dict(case, choices=[a for a, _ in trace])
                sh.violation(vs[0])
                break
        sh.states += ctl.points + ctl.executions
        sh.transitions += ctl.points
        sh.traces += ctl.executions
        sh.evaluations += ctl.executions
