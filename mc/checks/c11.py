"""C11 — match() and search() implement I-Regexp whole-string / substring matching.

Patterns: all pattern strings of size <= 2 over 20 atoms and size <= 3 over an 8-atom
subset (size <= 4 in thorough), closed under concatenation, alternation, grouping and
the quantifiers * + ? {2} {1,2} {2,}; plus every character class over sequences of <= 3 class items (escaped brackets,
backslash, dash, dot, ranges, category escapes; plain and negated), plus a list of
invalid patterns.
Subjects: all strings of length <= 2 over a 14-character alphabet plus all strings of
length 3 over a 6-character subset (length <= 3 over all 14 in thorough).
Oracle: R5 (mc/ref/iregexp.py): match <=> whole subject in L(p); search <=> some
substring in L(p); invalid pattern or non-string argument => false; never raises.
One find() per (function, pattern) evaluates all subjects (array document).
"""
from mc.core import diff, impl
from mc.core.explore import Shard, violation
from mc.gen import docs as gdocs
from mc.ref import abnf
from mc.ref import eval as ev
from mc.ref import iregexp
from mc.ref import paths as rpaths

PROPERTY = "C11"
RULE = (
    "pattern strings enumerated by size (atoms; quantified atom/group; group; concatenation; "
    "alternation) x subject strings enumerated by length over an alphabet with LF, CR, U+2028, "
    "'|', '&', '~', '-', '[', a non-BMP character; match() and search() through find() for "
    "every (pattern, subject); invalid patterns and non-string arguments must give false; "
    "distinct by construction; non-trivial = (function, pattern, subject) triples where the "
    "reference says true"
)
ASSUMPTIONS = [
    "oracle = mc/ref/iregexp.py (RFC 9485 grammar, XSD semantics, '.' = any char except LF/CR), cross-checked with the ABNF engine on every generated pattern",
    "'^' and '$' are not generated (excluded by the property)",
]
ATOMS = ["a", "b", ".", "\\.", "\\[", "\\n", "[ab]", "[^a]", "[a-c]", "[.]", "[a|b]", "[a||b]", "[a&&b]",
         "[a~~b]", "[a\\-b]", "[-a]", "\\p{L}", "\\P{L}", "[\\p{Nd}a]", "\U0001F600"]
SMALL = ["a", ".", "[^a]", "[a||b]", "\\p{L}", "\\n", "[a-c]", "\U0001F600"]
TINY = ["a", ".", "[^b]", "\\n"]
QUANTS = ["*", "+", "?", "{2}", "{1,2}", "{2,}"]
ALPHA = ["a", "b", "c", "1", "\n", "\r", " ", ".", "|", "&", "~", "-", "[", "\U0001F600",
         # non-ASCII letter / decimal digit: what \\p{L}, \\P{L} and \\p{Nd} have to classify
         "\u00e9", "\u0663"]
ALPHA_S = ["a", "b", "\n", "|", "-", "\U0001F600"]
INVALID = ["(", ")", "[", "]", "a{", "{", "}", "\\d", "\\w", "a**", "a|*", "+", "?a", "\\p{Xx}", "\\p{L", "[a", "\\",
           "(?i)a", "(?:a)", "a{,2}", "[]", "[^]", "a\\", "(a", "a)", "[a-]b]", "\\1", "a{1,2,3}", "\\p{}", "\\x41",
           "[\\d]", "a*?", "a++", "(?=a)", "\\b",
           # grammatical but denoting nothing in XSD / erroneous: false under any reading
           "[b-a]", "[z-a]x", "a{2,1}", "(ab){3,2}", "[a-c-a]"]


def BOUNDS(tier):
    return {"atoms": len(ATOMS), "max_pattern_size": "2 over 20 atoms, 3 over 8 atoms" +
            (", 4 over 4 atoms" if tier == "thorough" else ""),
            "subjects": len(subjects(tier)), "invalid_patterns": len(INVALID)}


def gen(atoms, n):
    """dict size -> list of pattern strings of exactly that size"""
    E = {1: list(atoms)}
    for k in range(2, n + 1):
        out = []
        base = list(atoms) if k - 1 == 1 else []
        if k - 2 >= 1:
            base += ["(" + e + ")" for e in E[k - 2]]
        for b in base:
            for q in QUANTS:
                out.append(b + q)
        out += ["(" + e + ")" for e in E[k - 1]]
        for i in range(1, k):
            for e1 in E[i]:
                for e2 in E[k - i]:
                    out.append(e1 + e2)
                    out.append(e1 + "|" + e2)
        seen = set()
        E[k] = [p for p in out if not (p in seen or seen.add(p))]
    return E


def patterns(tier):
    out = []
    e = gen(ATOMS, 2)
    out += e[1] + e[2]
    e = gen(SMALL, 3)
    out += e[3]
    if tier == "thorough":
        out += gen(TINY, 4)[4]
    out += ["", "a|", "|a", "()", "(|a)", "a{0}", "a{0,}", "(a*)*", "(a|b)*c", "[a-c]{2}b?"]
    seen = set()
    return [p for p in out if not (p in seen or seen.add(p))]


_SUBJ = {}


def subjects(tier):
    if tier in _SUBJ:
        return _SUBJ[tier]
    out = [""] + ALPHA + [x + y for x in ALPHA for y in ALPHA]
    three = ALPHA if tier == "thorough" else ALPHA_S
    out += [x + y + z for x in three for y in three for z in three]
    _SUBJ[tier] = out
    return out


CLASS_ITEMS = ["a", "b", ".", "\\]", "\\[", "\\\\", "\\-", "\\.", "\\n", "|", "^", "\\p{L}", "a-c", "\\^", "(", "*"]
CLASS_SUBJECTS = ["", "a", "b", "c", "d", ".", "]", "[", "\\", "-", "\n", "|", "^", "(", "*", "1", "\U0001F600", "\r",
                  "ab", "a]", "].", ".a", "\\]", "a.", "]]", "x"]


def class_patterns():
    """character classes over every sequence of <=3 class items, plain and negated, alone and
    followed / preceded by other atoms (escapes inside a class must not end it early)"""
    out = []
    import itertools as it
    for k in (1, 2, 3):
        for combo in it.product(CLASS_ITEMS, repeat=k):
            body = "".join(combo)
            for neg in ("", "^"):
                if neg == "" and combo[0] == "^":
                    continue
                cls = "[" + neg + body + "]"
                out.append(cls)
                if k <= 2:
                    out.append(cls + ".")
                    out.append("a" + cls + "*")
    seen = set()
    return [p for p in out if not (p in seen or seen.add(p))]


# every single-character escape of RFC 9485 (SingleCharEsc), alone, quantified, next to another
# escape or atom, and inside a class; the subjects are made of the escaped characters themselves
ESC_CHARS = list("()*+-.?[\\]^nrt{|}")
ESC_SUBJ_ALPHA = list("()*+-.?[\\]^{|}nrta") + ["\n", "\r", "\t"]


def escape_patterns():
    out = []
    for c in ESC_CHARS:
        e = "\\" + c
        out.append(e)
        out += [e + q for q in QUANTS]
        out += ["a" + e, e + "a", "(" + e + ")?", "[" + e + "]", "[^" + e + "]", "[" + e + "?]", "[(" + e + "]", e + "|a"]
        for c2 in ESC_CHARS:
            out.append(e + "\\" + c2)
            out.append(e + "?" + "\\" + c2 + "?")
    # unescaped metacharacters as class members
    for c in "()*+.?{|}":
        out += ["[" + c + "]", "[" + c + "?]", "[(" + c + "]", "[^" + c + "]"]
    seen = set()
    return [p for p in out if not (p in seen or seen.add(p))]


def escape_subjects():
    return [""] + ESC_SUBJ_ALPHA + [x + y for x in ESC_SUBJ_ALPHA for y in ESC_SUBJ_ALPHA]


def shards(tier):
    pats = patterns(tier)
    step = 40
    out = [{"space": "valid", "lo": lo, "hi": min(lo + step, len(pats)), "tier": tier}
           for lo in range(0, len(pats), step)]
    cp = class_patterns()
    out += [{"space": "classes", "lo": lo, "hi": min(lo + 400, len(cp)), "tier": tier} for lo in range(0, len(cp), 400)]
    ep = escape_patterns()
    out += [{"space": "escapes", "lo": lo, "hi": min(lo + 60, len(ep)), "tier": tier} for lo in range(0, len(ep), 60)]
    out.append({"space": "invalid", "tier": tier})
    out.append({"space": "kinds", "tier": tier})
    return out


def quote(p):
    return rpaths.render_name(p)


def check_case(case):
    return diff.check_query_doc(case)


def run_query(sh, query, doc, split=True):
    v = diff.ast_of(query)
    assert v.cls == "valid", (query, v)
    exp = ev.evaluate(v.ast, doc)
    n = len(doc)
    sh.states += n
    sh.transitions += n
    sh.evaluations += n
    sh.traces += 1
    sh.nontrivial += len(exp)
    d = diff.diff(query, doc)
    if d is None:
        return
    found = False
    if split:
        for case in diff.per_child_cases(query, doc):
            vv = check_case(case)
            if vv:
                found = True
                sh.violation(vv)
    if not found:
        sh.violation(violation(d[0], {"query": query, "doc": impl.jsonable(doc)}, d[1], d[2], "wrong"))


def run_shard(desc):
    sh = Shard(PROPERTY)
    tier = desc["tier"]
    subj = subjects(tier)
    if desc["space"] == "valid":
        for p in patterns(tier)[desc["lo"]:desc["hi"]]:
            r5 = iregexp.compile_(p) is not None
            r1 = abnf.iregexp().matches("i-regexp", p)
            if r5 != r1:
                raise AssertionError(f"R5 and the RFC 9485 ABNF disagree on generated pattern {p!r}")
            assert r5, p
            for fn in ("match", "search"):
                run_query(sh, f"$[?{fn}(@, {quote(p)})]", subj)
            sh.sample({"pattern": p, "query": f"$[?match(@, {quote(p)})]", "subjects": len(subj)}, limit=1)
        # pattern taken from the document instead of a literal
        for p in patterns(tier)[desc["lo"]:desc["hi"]][:6]:
            doc = [{"s": s, "p": p} for s in subj[:220]]
            run_query(sh, "$[?match(@.s, @.p)]", doc)
            run_query(sh, "$[?search(@.s, @.p)]", doc)
    elif desc["space"] == "classes":
        for p in class_patterns()[desc["lo"]:desc["hi"]]:
            r5 = iregexp.compile_(p) is not None
            r1 = abnf.iregexp().matches("i-regexp", p)
            if not (r5 and r1):
                continue  # only classes both recognisers accept; invalid patterns have their own space
            sh.bump("valid_class_patterns")
            for fn in ("match", "search"):
                run_query(sh, f"$[?{fn}(@, {quote(p)})]", CLASS_SUBJECTS)
        sh.sample({"pattern": class_patterns()[desc["lo"]], "subjects": len(CLASS_SUBJECTS)}, limit=1)
    elif desc["space"] == "escapes":
        es = escape_subjects()
        for p in escape_patterns()[desc["lo"]:desc["hi"]]:
            r5 = iregexp.compile_(p) is not None
            r1 = abnf.iregexp().matches("i-regexp", p)
            if r5 != r1:
                raise AssertionError(f"R5 and the RFC 9485 ABNF disagree on generated pattern {p!r}")
            sh.bump("valid_escape_patterns" if r5 else "invalid_escape_patterns")
            for fn in ("match", "search"):
                run_query(sh, f"$[?{fn}(@, {quote(p)})]", es)
        sh.sample({"pattern": escape_patterns()[desc["lo"]], "subjects": len(es)}, limit=1)
    elif desc["space"] == "invalid":
        for p in INVALID:
            assert iregexp.compile_(p) is None, p
            for fn in ("match", "search"):
                # a valid pattern that matches everything first: whatever the function objects
                # remember from it must not leak into the answers for the invalid pattern
                run_query(sh, f"$[?{fn}(@, '(.|\\n|\\r)*')]", subj[:40])
                run_query(sh, f"$[?{fn}(@, {quote(p)})]", subj[:230] + [p])
                run_query(sh, f"$[?!{fn}(@, {quote(p)})]", subj[:30] + [p])
    else:
        kinds = gdocs.kinds()
        nonstr = [k for k in kinds if not isinstance(k, str)]
        for fn in ("match", "search"):
            # non-string subject, string pattern
            run_query(sh, f"$[?{fn}(@, 'a')]", kinds)
            run_query(sh, f"$[?{fn}(@, '.*')]", kinds)
            # string subject, non-string pattern (from the document and as literal)
            doc = [{"s": "a", "p": k} for k in kinds] + [{"s": "a"}, {"p": "a"}, {}]
            run_query(sh, f"$[?{fn}(@.s, @.p)]", doc)
            run_query(sh, f"$[?{fn}(@.p, @.s)]", doc)
            for lit in ("1", "true", "null", "1.5", "0"):
                run_query(sh, f"$[?{fn}(@, {lit})]", kinds)
                run_query(sh, f"$[?{fn}({lit}, @)]", kinds)
            run_query(sh, f"$[?{fn}(@, @)]", kinds + ["a", ".", "[", "(", "a|b", "\\"])
            # subject / pattern produced by a nested value() call (may be an array, an object, ...)
            run_query(sh, f"$[?{fn}(value(@), 'a')]", kinds)
            run_query(sh, f"$[?{fn}('a', value(@))]", kinds)
            run_query(sh, f"$[?{fn}(value(@.*), '.*')]", kinds + [["a"], [["a"]], {"k": ["a"]}, [[]], ["a", "b"]])
            run_query(sh, f"$[?{fn}(value(@[0]), value(@[1]))]", [["ab", "a."], [["a"], "a"], ["a", ["a"]], [[], []], ["a"]])
            run_query(sh, f"$[?{fn}(@.x, 'a')]", kinds)
            run_query(sh, f"$[?{fn}('a', @.x)]", kinds)
    return sh
