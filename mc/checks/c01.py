"""C01 — structural selection (segments; name / index / slice / wildcard selectors).

Alphabet: 26 segments = {child, descendant} x 13 selector lists.
Bound: all segment sequences up to depth D over all JSON trees with <= N nodes.
Search: depth-first over query prefixes; the state at a prefix is the set of
(document, reference nodelist) pairs; a transition applies one more segment in the
reference model (incrementally) and runs the real find() on the whole query text.
A (query, document) path is not extended once the reference nodelist is empty.
Oracle: R3 (RFC 9535 2.3 / 2.5), nodelists compared as [(location, value identity)].
"""
from mc.core import impl
from mc.core.explore import Shard, violation
from mc.gen import docs as gdocs
from mc.ref import eval as ev
from mc.ref import parser as rp

PROPERTY = "C01"
RULE = (
    "depth-first enumeration of all sequences (depth <= D) of the 26-segment alphabet "
    "x all JSON trees with <= N nodes (lists; objects over keys a,b in both orders; "
    "leaves 1,'a',null); each (query, document) pair whose prefix result is non-empty "
    "is run through compile()+find() and compared with the reference evaluator; "
    "plus alternative spellings of every depth<=2 query; plus all depth<=2 queries over 15 index-like / syntax-like names and indices on 9 documents mixing arrays, objects with such member names and strings; distinct by construction, "
    "non-trivial = reference nodelist non-empty"
)
ASSUMPTIONS = [
    "oracle = mc/ref/eval.py (RFC 9535 2.3, 2.5), self-tested on the RFC example tables",
    "a (query prefix, document) pair with an empty reference nodelist is not extended",
]

SELS = [
    (("name", "a"),), (("name", "b"),), (("wild",),), (("index", 0),), (("index", 1),),
    (("index", -1),), (("slice", 0, 2, None),), (("slice", 1, None, None),),
    (("slice", None, None, -1),), (("name", "a"), ("name", "b")), (("wild",), ("wild",)),
    (("index", 0), ("index", 0)), (("name", "a"), ("index", 0)),
]


def sel_text(s):
    k = s[0]
    if k == "name":
        return "'" + s[1] + "'"
    if k == "wild":
        return "*"
    if k == "index":
        return str(s[1])
    a, b, c = s[1:]
    t = ("" if a is None else str(a)) + ":" + ("" if b is None else str(b))
    if c is not None:
        t += ":" + str(c)
    return t


SEGMENTS = []
for kind in ("child", "desc"):
    for sels in SELS:
        text = ("" if kind == "child" else "..") + "[" + ",".join(sel_text(s) for s in sels) + "]"
        SEGMENTS.append(((kind, sels), text))


def alt_spellings(seg):
    """alternative spellings of one segment (same abstract syntax)"""
    (kind, sels), text = seg
    dd = "" if kind == "child" else ".."
    out = []
    if len(sels) == 1 and sels[0][0] == "name":
        out.append((dd or ".") + sels[0][1])  # shorthand  .a  /  ..a
        out.append(dd + '["' + sels[0][1] + '"]')
    if len(sels) == 1 and sels[0][0] == "wild":
        out.append((dd or ".") + "*")
    inner = [sel_text(s) for s in sels]
    out.append(dd + "[ " + " ,\t".join(inner) + "\n]")
    out.append(" " + dd + "[" + ",".join(inner) + "]")  # blank before the segment
    if any(s[0] == "slice" for s in sels):
        sp = []
        for s in sels:
            if s[0] == "slice":
                a, b, c = s[1:]
                t = ("" if a is None else str(a) + " ") + ": " + ("" if b is None else str(b) + " ")
                t += ":" + ("" if c is None else " " + str(c))
                sp.append(t)
            else:
                sp.append(sel_text(s))
        out.append(dd + "[" + ",".join(sp) + "]")
    return out


def BOUNDS(tier):
    return {"plans_(max_depth,max_nodes_per_document)": _plans(tier), "segments": len(SEGMENTS),
            "spelling_pass": "all spellings of depth<=2 queries x trees with <=3 nodes"}


def _plans(tier):
    """list of (max depth, max nodes per document)"""
    return [(3, 4), (2, 5)] if tier == "quick" else [(3, 5), (4, 4)]


_DOCS = {}


def get_docs(n):
    if n not in _DOCS:
        _DOCS[n] = gdocs.docs(n)
    return _DOCS[n]


def shards(tier):
    out = []
    for d, n in _plans(tier):
        get_docs(n)  # built before the fork: shared by the workers
        out += [{"tier": tier, "part": "dfs", "first": i, "second": j, "d": d, "n": n}
                for i in range(len(SEGMENTS)) for j in range(len(SEGMENTS))]
        out += [{"tier": tier, "part": "dfs1", "first": i, "d": d, "n": n} for i in range(len(SEGMENTS))]
    out += [{"tier": tier, "part": "spell", "first": i} for i in range(len(SEGMENTS))]
    get_docs(3)
    out.append({"tier": tier, "part": "numnames"})
    return out


NUM_DOCS = [
    [1, 2], {"0": 1, "1": 2}, [[1], {"0": 2}], {"0": [1, 2], "-1": {"0": 3}}, {"a": [{"1": 1}, [0, 1]], "1": "x"},
    [{"0": 0, "length": 1}, [9]], {"": 1, " ": 2, "*": 3, "0:1": 4, "a,b": 5, "..": 6}, "01", 0,
]
import collections as _c

NUM_DOCS += [
    _c.OrderedDict([("0", [1, 2]), ("a", _c.OrderedDict([("0", 3), ("b", [_c.OrderedDict([("1", 4)])])]))]),
    [_c.OrderedDict([("a", [5, 6])]), [7, _c.OrderedDict()]],
]
# the same containers reachable along several paths (shared, not cyclic)
_X = {"a": [1, {"a": 2}], "0": 3}
NUM_DOCS += [[_X, _X, {"a": _X, "b": _X["a"]}, [_X["a"], _X["a"]]]]
N_DIRECT = 3
NUM_SELS = ["'0'", "'1'", "'-1'", "0", "1", "-1", "'length'", "''", "' '", "'*'", "'0:1'", "'a,b'", "'..'", "*", "0:1"]


def compare(nodes, expected, doc):
    """-> None | (observed, why)"""
    if len(nodes) != len(expected):
        return "length"
    for n, (loc, val) in zip(nodes, expected):
        if n.location != loc:
            return "location"
        if n.value is not val:
            return "identity"
    return None


def check_case(case):
    """case: {"query": text, "doc": jsonable}"""
    if "ordered_dict_doc" in case:
        from mc.core import diff as _diff
        d = _diff.diff(case["query"], NUM_DOCS[case["ordered_dict_doc"]])
        return violation(d[0], case, d[1], d[2], "wrong") if d else None
    doc = impl.unjsonable(case["doc"])
    r = rp.parse(case["query"])
    assert r.status == "ok", case
    expected = ev.evaluate(r.ast, doc)
    exp_obs = [[list(l), impl.jsonable(v)] for l, v in expected]
    res = impl.run(impl.jp.find, case["query"], doc)
    if res[0] != "ok":
        return violation("raised", case, exp_obs, {"raised": res[1], "msg": res[3]}, "wrong")
    why = compare(res[1], expected, doc)
    if why:
        return violation("wrong-nodelist", case, exp_obs,
                         {"nodes": impl.nodes_obs(res[1]), "why": why}, "wrong")
    return None


def run_shard(desc):
    sh = Shard(PROPERTY)
    tier = desc["tier"]
    maxd, n = desc.get("d", 0), desc.get("n", 0)
    E = ev.Evaluator()

    def step(text, segs, active, depth):
        """active: list of (doc, reference nodelist) with non-empty nodelists"""
        try:
            q = impl.jp.compile(text)
        except Exception as e:  # noqa: BLE001
            doc = active[0][0]
            sh.violation(violation("compile-raised", {"query": text, "doc": impl.jsonable(doc)},
                                   "compiles", {"raised": type(e).__name__}, "wrong"))
            return
        r = rp.parse(text)
        assert r.status == "ok" and r.ast == ("query", "$", tuple(segs)), (text, r)
        nxt = []
        seg = segs[-1]
        for doc, nodes in active:
            exp = E.segment(seg, nodes, doc)
            sh.states += 1
            sh.transitions += 1
            sh.traces += 1
            sh.evaluations += 1
            try:
                got = q.find(doc)
                why = compare(got, exp, doc)
            except Exception as e:  # noqa: BLE001
                why = "raised " + type(e).__name__
            if why:
                v = check_case({"query": text, "doc": impl.jsonable(doc)})
                if v is None:
                    v = violation("wrong-nodelist-unstable", {"query": text, "doc": impl.jsonable(doc)},
                                  "stable result", why, "wrong")
                sh.violation(v)
            if exp:
                sh.nontrivial += 1
                nxt.append((doc, exp))
        if nxt:
            sh.sample({"query": text, "doc": impl.jsonable(nxt[0][0]),
                       "reference_locations": [list(l) for l, _ in nxt[0][1]]}, limit=1)
        if depth < maxd and nxt:
            for (s2, t2) in SEGMENTS:
                step(text + t2, segs + [s2], nxt, depth + 1)

    if desc["part"] in ("dfs", "dfs1"):
        dl = get_docs(n)
        root = [(d, [((), d)]) for d in dl]
        s1, t1 = SEGMENTS[desc["first"]]
        if "second" in desc:
            # thorough: shard = first two segments; depth-1 work is done by "dfs1" shards
            s2, t2 = SEGMENTS[desc["second"]]
            act = []
            for doc, nodes in root:
                exp = E.segment(s1, nodes, doc)
                if exp:
                    act.append((doc, exp))
            if act:
                step("$" + t1 + t2, [s1, s2], act, 2)
        elif desc["part"] == "dfs1":
            save = maxd
            maxd = 1
            step("$" + t1, [s1], root, 1)
            maxd = save
        else:
            step("$" + t1, [s1], root, 1)
    elif desc["part"] == "numnames":
        # names that look like indices / syntax, on arrays, objects and strings: a name selector
        # never matches an array element, an index selector never matches an object member
        for a in NUM_SELS:
            for b in [None] + NUM_SELS:
                for dd1 in ("", ".."):
                    for dd2 in ("", ".."):
                        text = f"${dd1}[{a}]" + ("" if b is None else f"{dd2}[{b}]")
                        if b is None and dd2 == "..":
                            continue
                        for doc in NUM_DOCS:
                            sh.states += 1
                            sh.transitions += 1
                            sh.traces += 1
                            sh.evaluations += 1
                            v = check_case({"query": text, "doc": impl.jsonable(doc)})
                            if v:
                                sh.violation(v)
                            else:
                                sh.nontrivial += 1 if impl.jp.find(text, doc) else 0
        # objects that are OrderedDicts (json.load(object_pairs_hook=OrderedDict)): compared directly,
        # without the JSON round trip of check_case
        from mc.core import diff as _diff
        for di in range(len(NUM_DOCS) - N_DIRECT, len(NUM_DOCS)):
            doc = NUM_DOCS[di]
            for _, t1 in SEGMENTS:
                for t2 in [""] + [t for _, t in SEGMENTS]:
                    text = "$" + t1 + t2
                    sh.states += 1
                    sh.transitions += 1
                    sh.traces += 1
                    sh.evaluations += 1
                    d = _diff.diff(text, doc)
                    if d:
                        sh.violation(violation(d[0], {"query": text, "ordered_dict_doc": di}, d[1], d[2], "wrong"))
        # shorthand member names at the edges of the ABNF's name-first / name-char ranges
        for name in ["\U0001F600", "\u00e9", "_", "a\U0001F600b", "\U0010FFFF", "\uE000", "\uFFFF", "\U00010000",
                     "\uD7FF", "\u0080", "a1", "_1", "\U0001F600\U0001F600", "Z", "a_\u00e9\U00010000"]:
            doc = {name: 1, "x": [{name: 2, "y": {name: [3]}}]}
            for text in (f"$.{name}", f"$..{name}", f"$.x[0].{name}", f"$.x..{name}", f"$..{name}[0]", f"$ .{name}",
                         f"$.x[0].y.{name}[0]", f"$..y..{name}"):
                sh.states += 1
                sh.transitions += 1
                sh.traces += 1
                sh.evaluations += 1
                sh.nontrivial += 1
                v = check_case({"query": text, "doc": impl.jsonable(doc)})
                if v:
                    sh.violation(v)
        # the bare root query: exactly the root node, whatever the document is
        from mc.gen import docs as _gd
        for doc in get_docs(3) + _gd.kinds() + NUM_DOCS:
            for text in ("$", "$ ".strip()):
                sh.states += 1
                sh.transitions += 1
                sh.traces += 1
                sh.evaluations += 1
                sh.nontrivial += 1
                v = check_case({"query": text, "doc": impl.jsonable(doc)})
                if v:
                    sh.violation(v)
        sh.sample({"query": "$['0']", "doc": impl.jsonable(NUM_DOCS[1])}, limit=1)
    else:
        # spelling pass: every spelling of depth<=2 queries over trees with <= 3 nodes
        dl = get_docs(3)
        i = desc["first"]
        firsts = [SEGMENTS[i][1]] + alt_spellings(SEGMENTS[i])
        for j in range(-1, len(SEGMENTS)):
            if j < 0:
                seconds = [""]
                segs = (SEGMENTS[i][0],)
            else:
                seconds = [SEGMENTS[j][1]] + alt_spellings(SEGMENTS[j])
                segs = (SEGMENTS[i][0], SEGMENTS[j][0])
            for a in firsts:
                for b in seconds:
                    text = "$" + a + b
                    r = rp.parse(text)
                    assert r.status == "ok" and r.ast == ("query", "$", segs), (text, r, segs)
                    sh.states += 1
                    sh.transitions += 1
                    try:
                        q = impl.jp.compile(text)
                    except Exception as e:  # noqa: BLE001
                        sh.violation(violation("compile-raised", {"query": text},
                                               "compiles", {"raised": type(e).__name__}, "wrong"))
                        continue
                    for doc in dl:
                        exp = ev.evaluate(r.ast, doc)
                        sh.evaluations += 1
                        sh.traces += 1
                        if exp:
                            sh.nontrivial += 1
                        try:
                            why = compare(q.find(doc), exp, doc)
                        except Exception as e:  # noqa: BLE001
                            why = "raised"
                        if why:
                            v = check_case({"query": text, "doc": impl.jsonable(doc)})
                            if v:
                                sh.violation(v)
    return sh
