"""C03 — every valid RFC 9535 query is accepted by compile().

Spaces: (a) the shared string enumerations (token strings, single-edit neighbours of
the corpus): every string R2 classifies `valid`; (b) lexical rules exhaustively:
every Unicode scalar value as name-first / name-char of a member-name-shorthand, every
unescaped character and every \\uXXXX escape inside both quote styles, all number
spellings, boundary integers; (c) blank space at every position the grammar allows.
Oracle: R2 `valid` (R1 agrees) => compile() returns.
"""
from mc.checks import lang
from mc.core import impl
from mc.core.explore import Shard, violation
from mc.gen import strings as gs
from mc.ref import abnf
from mc.ref import parser as rp
from mc.ref import typing as rt

PROPERTY = "C03"
RULE = (
    "every string classified valid by the reference recogniser among: `$`.T^<=k token "
    "strings, all single-edit neighbours of the 190-query corpus, every corpus query with one token (token pair in thorough) inserted at every position, every corpus query with "
    "blank space (4 kinds) inserted at every position (pairs of positions in thorough); "
    "plus exhaustive terminals: every Unicode scalar value as name-first and name-char, "
    "every character raw and every \\\\uXXXX escape in both quote styles, number spellings "
    "{int part} x {frac} x {exp}, boundary integers in index and slice slots; "
    "non-trivial = the string is valid (the property's domain)"
)
ASSUMPTIONS = [
    "oracle = R2 recogniser + typing; every reported string is re-checked with the ABNF engine R1",
    "number literals that overflow a double or exceed 2^53 are grey (not required to be accepted)",
]
BLANKS = [" ", "\n", "\t", "\r"]


def BOUNDS(tier):
    return {"token_alphabet": lang.NT, "max_tokens_after_root": lang.tok_depth(tier),
            "code_points": "U+0000..U+10FFFF (all scalar values)" if tier == "thorough" else
            "U+0000..U+FFFF plus 16 code points at every plane boundary",
            "blank_insertions_per_query": 1 if tier == "quick" else 2}


def cps(tier):
    if tier == "thorough":
        return [c for c in range(0x110000) if not 0xD800 <= c <= 0xDFFF]
    out = [c for c in range(0x10000) if not 0xD800 <= c <= 0xDFFF]
    for plane in range(1, 17):
        base = plane * 0x10000
        out += list(range(base, base + 8)) + list(range(base + 0xFFF8, base + 0x10000))
    return out


def shards(tier):
    out = lang.shards(tier)
    n = len(gs.corpus())
    out += [{"space": "blank", "k": k, "n": 1 if tier == "quick" else 2} for k in range(n)]
    cp = cps(tier)
    step = 8192
    for lo in range(0, len(cp), step):
        out.append({"space": "chars", "lo": lo, "hi": min(lo + step, len(cp)), "tier": tier})
    out.append({"space": "numbers"})
    out.append({"space": "ints"})
    return out


def judge(text, verdict, outcome):
    if verdict.cls == "valid" and outcome[0] != "ok":
        return violation("rejected-valid", {"query": text}, "compiles",
                         {"raised": outcome[1], "msg": outcome[3]}, "rejected")
    return None


def check_case(case):
    text = case["query"]
    return judge(text, rt.classify(text), lang.compile_outcome(text))


NUM_INT = ["0", "-0", "1", "-1", "10", "12", "-12", "9007199254740991"]
NUM_FRAC = ["", ".0", ".5", ".05", ".50", ".000"]
NUM_EXP = ["", "e0", "e1", "E1", "e+1", "e-1", "e01", "E+01", "e-0", "E-00", "e10"]
BOUND_INTS = [0, 1, -1, 2**53 - 2, 2**53 - 1, -(2**53) + 2, -(2**53) + 1]


def extra_strings(desc):
    sp = desc["space"]
    if sp == "blank":
        q = gs.corpus()[desc["k"]]
        for i in range(len(q) + 1):
            for b in BLANKS:
                s = q[:i] + b + q[i:]
                yield s
                if desc["n"] == 2:
                    for j in range(i + 1, len(s) + 1):
                        for b2 in (" ", "\n"):
                            yield s[:j] + b2 + s[j:]
    elif sp == "chars":
        cp = cps(desc["tier"])[desc["lo"]:desc["hi"]]
        for c in cp:
            ch = chr(c)
            yield "$." + ch
            yield "$.a" + ch
            yield "$.." + ch + "b"
            yield "$['" + ch + "']"
            yield '$["a' + ch + '"]'
            yield "$[?@ == '" + ch + "']"
            yield "$[?@." + ch + "]"
            if c <= 0xFFFF:
                h = "%04x" % c
                yield "$['\\u" + h + "']"
                yield '$["\\u' + h.upper() + '"]'
                yield "$[?@ == '\\u" + h[:2].upper() + h[2:] + "']"
        if desc["lo"] == 0:
            # surrogate-pair escapes at every boundary of the two ranges
            for hi in (0xD800, 0xD801, 0xD83D, 0xDBFE, 0xDBFF):
                for lo in (0xDC00, 0xDC01, 0xDE00, 0xDFFE, 0xDFFF):
                    yield "$['\\u%04X\\u%04x']" % (hi, lo)
                    yield '$[?@ == "a\\u%04x\\u%04Xz"]' % (hi, lo)
    elif sp == "numbers":
        for a in NUM_INT:
            for b in NUM_FRAC:
                for c in NUM_EXP:
                    n = a + b + c
                    yield f"$[?@ == {n}]"
                    yield f"$[?{n}<@.a]"
                    yield f"$[?length(@) == {n}]"
    elif sp == "ints":
        for a in BOUND_INTS:
            yield f"$[{a}]"
            yield f"$[{a}:]"
            yield f"$[:{a}]"
            yield f"$[::{a}]"
            yield f"$[?@[{a}]]"
            for b in BOUND_INTS:
                yield f"$[{a}:{b}]"
                yield f"$[{a}:{b}:{a}]"
                yield f"$[{a},{b}]"


def run_shard(desc):
    sh = Shard(PROPERTY)
    if desc["space"] in ("blank", "chars", "numbers", "ints"):
        for text in extra_strings(desc):
            sh.states += 1
            sh.transitions += 1
            verdict = rt.classify(text)
            sh.bump("class_" + verdict.cls)
            outcome = lang.compile_outcome(text)
            sh.traces += 1
            sh.evaluations += 1
            v = judge(text, verdict, outcome)
            if v is not None:
                if not lang.r1_agrees(text, verdict):
                    raise AssertionError(f"R1/R2 disagree on {text!r}: {verdict}")
                sh.violation(v)
        sh.sample({"space": desc, "example": next(iter(extra_strings(desc)))}, limit=1)
    else:
        lang.explore(sh, desc, judge, r1_all=(desc["space"] in ("tok_short", "tok_noroot")))
        sh.sample({"space": desc, "example": next(iter(lang.strings_of(desc)))}, limit=1)
    sh.nontrivial = sh.extra.get("class_valid", 0)
    return sh
