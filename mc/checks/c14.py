"""C14 — evaluation is pure and repeatable; queries and environments do not interfere.

All histories of length <= L (3 quick, 4 thorough on a reduced alphabet) over a concrete
operation alphabet {compile on an environment, apply a compiled query to a document,
find via an environment, find via the module-level functions, register a function on
an environment, create an environment subclass / instance}.  EVERY history runs on a
freshly imported package (all jsonpath_rfc9535 modules purged, regex cache purged),
so state hidden anywhere in the package cannot leak between histories; histories are
never merged.  A long chained history (every operation many times, in rotating
order) covers the "start from a non-initial state" direction.
Oracle: a boring model — per-environment set of registered functions and the list of
compiled handles — predicts every operation's outcome with R3 (or the expected error
class); every document is snapshotted before and compared (structure + identity of
every container) after each operation.
"""
import copy
import itertools

from mc.core import impl, target
from mc.core.explore import Shard, violation
from mc.ref import eval as ev
from mc.ref import typing as rt

PROPERTY = "C14"
MAXTASKS = 50
RULE = (
    "every sequence of <=2 operations (<=3 in thorough) from an alphabet of 63 concrete operations, every "
    "sequence of 3 (4 in thorough) over a reduced 14-operation alphabet; "
    "operations range over 5 environments (module default, two instances, a subclass with "
    "max_recursion_depth=2, a subclass registering its own function), 8 queries and 4 documents, each "
    "history executed on a freshly imported package and compared step by step with a model; plus one "
    "chained history of ~2 000 steps; histories are distinct by construction; non-trivial = histories "
    "with at least two operations that touch the same environment, compiled query or document"
)
ASSUMPTIONS = [
    "oracle = model registry + R3 evaluation; function f1 has a different implementation on each environment so leakage is observable by behaviour",
    "a fresh import (sys.modules purge + regex.purge()) resets all state of the package",
]

D = {
    "d1": lambda: {"x": 1, "l": [{"a": 1, "b": "ab"}, {"a": 2, "b": "a\nb"}, {"a": 3, "b": "xaby"}, {"a": True, "b": "t"},
                                 {"a": 1.0, "b": "f"}, {"a": False, "b": 0}, {"a": 0}], "s": [1, 2, 3]},
    "d3": lambda: {"x": 2, "l": [{"a": 1, "b": "ab"}, {"a": 2, "b": "a\nb"}, {"a": 3, "b": "xaby"}], "s": [1, 2, 3, 4, 5]},
    "deep": lambda: {"l": [[[[1]]]], "a": {"a": {"a": 1}}},
}
D["d2"] = D["d1"]  # equal to d1 but a distinct object


def _aliased():
    # the same container objects are reachable by two paths (no cycle): still ordinary data
    addr = {"a": 1, "k": [{"a": 2}]}
    return {"x": 1, "l": [addr, addr, {"a": 1, "b": "ab"}], "s": addr["k"], "m": {"n": addr}}


D["alias"] = _aliased


def _subclassed(x):
    """an equal value in which every object / array / string is an instance of a subclass of
    dict / list / str (what readers with object_pairs_hook, comment-preserving parsers ... return)"""
    import collections
    from mc.core.impl import SubList, SubStr
    if isinstance(x, dict):
        return collections.OrderedDict((k, _subclassed(v)) for k, v in x.items())
    if isinstance(x, list):
        return SubList(_subclassed(v) for v in x)
    if isinstance(x, str):
        return SubStr(x)
    return x


D["d1sub"] = lambda: _subclassed(D["d1"]())

Q = {
    "qA": "$.l[?@.a == $.x]",
    "qM": "$.l[?match(@.b, 'a.')]",
    "qS": "$.l[?search(@.b, 'a.')]",
    "qD": "$..a",
    "qF": "$.l[?f1(@.a)]",
    "qSl": "$.s[-2:]",
    "qR": "$.s[::-1]",
    "qN": "$.l[?@.b == 'ab' || !@.a]",
    # literals that are equal under Python's == and different JSON values
    "qL": "$.l[?length(@.b) == 2 || length(@) == 1 || count(@.*) == 2]",
    "qT": "$.l[?@.a == true]",
    "qO": "$.l[?@.a == 1]",
    "qOf": "$.l[?@.a == 1.0 || @.a == 0 || @.a == false]",
    "qBad2": "$.l[?match(@.b, '[z-a]b*')]",
    "qBad3": "$.l[?search(@.b, 'a{2,1}')]",
    "qBad": "$.l[?match(@.b, '\\\\d+') || search(@.b, '(?i)a') || match(@.b, $.x) || match(@.b, '[z-a]b*') || search(@.b, 'a{2,1}')]",
}
ENVS = ["D", "E1", "E2", "S", "SF"]
F_IMPL = {"E1": 1, "E2": 2, "SF": 3, "D": 4, "S": 5}  # f1(x) is true iff x == this number


def ops_alphabet(tier_small=False):
    ops = []
    for e, q in [("E1", "qA"), ("E1", "qF"), ("E2", "qF"), ("D", "qA"), ("D", "qM"), ("S", "qD"), ("E1", "qSl"),
                 ("SF", "qF"), ("E2", "qS")]:
        ops.append(("compile", e, q))
    for k in (0, 1):
        for d in ("d1", "d2", "d3", "deep"):
            ops.append(("apply", k, d))
    for e, q, d in [("E1", "qA", "d1"), ("E2", "qF", "d1"), ("D", "qA", "d3"), ("S", "qD", "deep"),
                    ("E1", "qD", "deep"), ("SF", "qF", "d3"), ("E1", "qR", "d3"), ("E1", "qD", "alias"),
                    ("E2", "qA", "alias")]:
        ops.append(("find", e, q, d))
    # equal data built from subclasses of dict / list / str
    ops += [("find", "E1", "qL", "d1"), ("find", "E1", "qL", "d1sub"), ("mfind", "qL", "d1sub"), ("find", "E1", "qA", "d1sub"),
            ("find", "E1", "qD", "d1sub"), ("find", "E1", "qM", "d1sub")]
    ops += [("find", "E1", "qT", "d1"), ("find", "E1", "qO", "d1"), ("find", "E1", "qOf", "d1"), ("mfind", "qT", "d1"),
            ("mfind", "qO", "d1")]
    ops += [("mfind", "qA", "d1"), ("mfind", "qF", "d1"), ("mfind", "qM", "d1"), ("mfind", "qD", "deep"),
            ("mfind", "qD", "alias")]
    ops += [("register", "E1"), ("register", "E2"), ("register", "D")]
    # the caller changes its own document in place between two calls, or drops it and builds a
    # new one (whose id() may coincide with the old one's): results must follow the data
    ops += [("mutate", "d1"), ("mutate", "d3"), ("apply_mutate_apply", 0, "d1"), ("apply_renew_apply", 0, "d1"),
            ("find_mutate_find", "E1", "qA", "d1"), ("find_mutate_find", "D", "qA", "d3")]
    # the registry of ONE environment changes between two compilations of the same text: the second
    # compilation must follow the registry as it is now
    ops += [("recompile_after_unregister", "E1"), ("recompile_after_unregister", "D"),
            ("recompile_after_resignature", "E2"), ("recompile_after_range_change", "E1"),
            ("refind_after_range_change", "E2")]
    # a compiled query is applied, then the function it calls is registered again with another
    # implementation on the same environment: the old compiled query and a fresh compile of the same
    # text must behave identically (both follow the registry as it is when they are applied)
    ops += [("handle_after_reregister", "E1"), ("handle_after_reregister", "E2")]
    # an environment configured with very large limits applies a descendant query: whatever it does to
    # honour them must stay inside that environment (the interpreter's recursion limit is process-wide
    # and decides whether a very long query on ANY environment completes or raises)
    ops += [("big_env_descend",)]
    # many rejected compilations on one environment: nothing may be left behind in its parser / lexer
    ops += [("reject_many", "E1"), ("reject_many", "D")]
    # a valid pattern, then patterns that are not I-Regexps (twice): always false, whatever came before
    ops += [("valid_then_invalid_pattern", "E1"), ("valid_then_invalid_pattern", "D")]
    if tier_small:
        keep = {("compile", "E1", "qA"), ("compile", "E1", "qF"), ("compile", "E2", "qF"), ("apply", 0, "d1"),
                ("apply", 0, "d3"), ("apply", 1, "d2"), ("find", "E2", "qF", "d1"), ("mfind", "qF", "d1"),
                ("mfind", "qA", "d1"), ("register", "E1"), ("register", "E2"), ("find", "S", "qD", "deep"),
                ("find", "E1", "qD", "deep"), ("compile", "E1", "qSl"), ("mutate", "d1")}
        ops = [o for o in ops if o in keep]
    return ops


OPS = ops_alphabet()
OPS_SMALL = ops_alphabet(True)


def BOUNDS(tier):
    return {"operations": len(OPS), "max_history_length_full_alphabet": 2 if tier == "quick" else 3,
            "length_3_over_reduced_alphabet": len(OPS_SMALL) if tier == "quick" else None,
            "length_4_over_reduced_alphabet": len(OPS_SMALL) if tier == "thorough" else None,
            "environments": ENVS, "queries": Q, "long_history_steps": 2000}


# ---- the world under test ---------------------------------------------------------


class World:
    """fresh package + the environments, built lazily so creation order is part of the history"""

    def __init__(self):
        try:
            import regex
            regex.purge()
        except Exception:  # noqa: BLE001
            pass
        self.jp = target.fresh()
        self.envs = {}
        self.handles = []
        self.docs = {k: f() for k, f in D.items()}
        self.snap = {k: self.snapshot(v) for k, v in self.docs.items()}

    def snapshot(self, v):
        """(deep copy, list of ids of all containers in traversal order)"""
        ids = []

        def walk(x):
            if isinstance(x, (list, dict)):
                ids.append(id(x))
                for y in (x.values() if isinstance(x, dict) else x):
                    walk(y)

        walk(v)
        return copy.deepcopy(v), ids

    def mutate(self, name):
        """the caller edits its own document in place (legitimate): x toggles 1 <-> 2"""
        d = self.docs[name]
        d["x"] = 2 if d["x"] == 1 else 1
        self.snap[name] = self.snapshot(d)

    def renew(self, name):
        """the caller drops the document and builds a new one with a different x; CPython will
        often hand out the same address again"""
        import gc
        old_x = self.docs[name]["x"]
        del self.docs[name]
        self.snap.pop(name, None)
        gc.collect()
        new = D[name]()
        new["x"] = 2 if old_x == 1 else 1
        self.docs[name] = new
        self.snap[name] = self.snapshot(new)

    def docs_intact(self):
        for k, v in self.docs.items():
            cp, ids = self.snap[k]
            cur = self.snapshot(v)
            if impl.jsonable(cur[0]) != impl.jsonable(cp) or cur[1] != ids:
                return k
        return None

    def make_f1(self, n, ret="LOGICAL"):
        from_mod = self.jp.function_extensions
        ET = from_mod.ExpressionType

        class F1(from_mod.FilterFunction):
            arg_types = [ET.VALUE]
            return_type = getattr(ET, ret)

            def __call__(self, v):
                return v == n and not isinstance(v, bool)

        return F1()

    def env(self, name):
        if name in self.envs:
            return self.envs[name]
        jp = self.jp
        if name == "D":
            e = jp.DEFAULT_ENV
        elif name in ("E1", "E2"):
            e = jp.JSONPathEnvironment()
        elif name == "S":
            class Shallow(jp.JSONPathEnvironment):
                max_recursion_depth = 2

            e = Shallow()
        else:
            world = self

            class WithF1(jp.JSONPathEnvironment):
                def setup_function_extensions(self):
                    super().setup_function_extensions()
                    self.function_extensions["f1"] = world.make_f1(F_IMPL["SF"])

            e = WithF1()
        self.envs[name] = e
        return e


class Model:
    def __init__(self):
        self.funcs = {e: set() for e in ENVS}
        self.funcs["SF"].add("f1")
        self.handles = []  # (env, qname) or None when compile failed

    def refenv(self, e):
        sigs = dict(rt.BUILTINS)
        impls = dict(ev.BUILTIN_IMPL)
        if "f1" in self.funcs[e]:
            n = F_IMPL[e]
            sigs["f1"] = (("V",), "L")
            impls["f1"] = lambda v: (v == n and not isinstance(v, bool)) if v is not ev.NOTHING else False
        return ev.Env(sigs, impls), sigs

    def expect(self, e, qname, dname, docs):
        """-> ("ok", locations) | ("err", class name)"""
        q = Q[qname]
        renv, sigs = self.refenv(e)
        v = rt.classify(q, registry=sigs)
        if v.cls != "valid":
            return ("err", "JSONPathError")
        if dname is None:
            return ("ok", None)
        doc = docs[dname]
        if e == "S" and ".." in q and _nesting(doc) > 2:
            return ("err", "JSONPathRecursionError")
        return ("ok", [list(loc) for loc, _ in ev.evaluate(v.ast, doc, renv)])


def _nesting(x):
    if isinstance(x, dict):
        return 1 + max([_nesting(v) for v in x.values()], default=0)
    if isinstance(x, list):
        return 1 + max([_nesting(v) for v in x], default=0)
    return 0


def observe(fn):
    try:
        r = fn()
    except Exception as e:  # noqa: BLE001
        names = [c.__name__ for c in type(e).__mro__]
        if "JSONPathRecursionError" in names:
            return ("err", "JSONPathRecursionError")
        return ("err", "JSONPathError" if "JSONPathError" in names else type(e).__name__)
    if r is None:
        return ("ok", None)
    if hasattr(r, "segments"):
        return ("ok", None, r)
    return ("ok", [list(n.location) for n in r])


def _stack_probe(w, n):
    q = "$" + "[0]" * n
    doc = 1
    for _ in range(n):
        doc = [doc]
    return observe(lambda: w.env("E1").find(q, doc))[:2]


def _recursion_limit_effect(w, limit0):
    """the interpreter's recursion limit differs from the one this history started with: show that a
    query's outcome now depends on it (a query whose evaluation depth lies between the two limits)"""
    import sys
    now = sys.getrecursionlimit()
    n = (limit0 + now) // 2
    try:
        changed = _stack_probe(w, n)
        sys.setrecursionlimit(limit0)
        pristine = _stack_probe(w, n)
    finally:
        sys.setrecursionlimit(limit0)
    if tuple(changed) != tuple(pristine):
        return ({"query_segments": n, "outcome_before_the_history": pristine[0] if pristine[0] == "ok" else pristine[1]},
                {"outcome_after_the_history": changed[0] if changed[0] == "ok" else changed[1],
                 "interpreter_recursion_limit": [limit0, now]})
    return None


def run_history(hist):
    import sys
    limit0 = sys.getrecursionlimit()
    try:
        return _run_history(hist, limit0)
    finally:
        sys.setrecursionlimit(limit0)


def _run_history(hist, limit0):
    """-> None | (step index, op, expected, observed)"""
    import sys
    w = World()
    m = Model()
    for i, op in enumerate(hist):
        kind = op[0]
        if kind == "big_env_descend":
            class Big(w.jp.JSONPathEnvironment):
                max_recursion_depth = 2 * limit0
                max_int_index = 2**62
                min_int_index = -(2**62)

            exp = ("ok", [["a"], ["a", 0, "a"]])
            obs = observe(lambda: Big().find("$..a", {"a": [{"a": 1}]}))
        elif kind == "compile":
            _, e, q = op
            exp = m.expect(e, q, None, w.docs)
            obs = observe(lambda: w.env(e).compile(Q[q]))
            if obs[0] == "ok" and len(obs) < 3:
                # compile() returned something that is not a compiled query (None, ...)
                return (i, op, exp, ("returned", "not a compiled query"))
            if obs[0] == "ok":
                w.handles.append(obs[2])
                m.handles.append((e, q))
                obs = ("ok", None)
            else:
                w.handles.append(None)
                m.handles.append(None)
        elif kind == "apply":
            _, k, d = op
            if k >= len(m.handles) or m.handles[k] is None or w.handles[k] is None:
                continue  # not enabled in this state
            e, q = m.handles[k]
            exp = m.expect(e, q, d, w.docs)
            h = w.handles[k]
            obs = observe(lambda: h.find(w.docs[d]))
        elif kind == "find":
            _, e, q, d = op
            exp = m.expect(e, q, d, w.docs)
            obs = observe(lambda: w.env(e).find(Q[q], w.docs[d]))
        elif kind == "mfind":
            _, q, d = op
            exp = m.expect("D", q, d, w.docs)
            obs = observe(lambda: w.jp.find(Q[q], w.docs[d]))
        elif kind == "mutate":
            w.mutate(op[1])
            exp = obs = ("ok", None)
        elif kind in ("apply_mutate_apply", "apply_renew_apply"):
            _, k, d = op
            if k >= len(m.handles) or m.handles[k] is None or w.handles[k] is None:
                continue
            e, q = m.handles[k]
            h = w.handles[k]
            exp1 = m.expect(e, q, d, w.docs)
            obs1 = observe(lambda: h.find(w.docs[d]))
            if tuple(exp1) != tuple(obs1[:2]):
                return (i, op, exp1, obs1[:2])
            if kind == "apply_mutate_apply":
                w.mutate(d)
            else:
                w.renew(d)
            exp = m.expect(e, q, d, w.docs)
            obs = observe(lambda: h.find(w.docs[d]))
        elif kind == "find_mutate_find":
            _, e, q, d = op
            exp1 = m.expect(e, q, d, w.docs)
            obs1 = observe(lambda: w.env(e).find(Q[q], w.docs[d]))
            if tuple(exp1) != tuple(obs1[:2]):
                return (i, op, exp1, obs1[:2])
            w.mutate(d)
            exp = m.expect(e, q, d, w.docs)
            obs = observe(lambda: w.env(e).find(Q[q], w.docs[d]))
        elif kind == "handle_after_reregister":
            _, e = op
            env = w.env(e)
            env.function_extensions["f1"] = w.make_f1(F_IMPL[e])
            m.funcs[e].add("f1")
            old = env.compile(Q["qF"])
            first = observe(lambda: old.find(w.docs["d1"]))
            exp1 = m.expect(e, "qF", "d1", w.docs)
            if tuple(exp1) != tuple(first[:2]):
                return (i, op, exp1, first[:2])
            # now f1(x) is true iff x == 3 (it was x == F_IMPL[e])
            env.function_extensions["f1"] = w.make_f1(3)
            fresh = env.compile(Q["qF"])
            a = observe(lambda: old.find(w.docs["d1"]))
            b = observe(lambda: fresh.find(w.docs["d1"]))
            exp = ("ok", [["l", 2]])
            obs = a if tuple(a[:2]) != tuple(exp) else b
            env.function_extensions["f1"] = w.make_f1(F_IMPL[e])
        elif kind == "valid_then_invalid_pattern":
            _, e = op
            env = w.env(e)
            exp = obs = ("ok", None)
            for q in ("qM", "qBad", "qBad", "qS", "qBad", "qM", "qBad2", "qBad2", "qS", "qBad3", "qBad3"):
                ex = m.expect(e, q, "d1", w.docs)
                ob = observe(lambda: env.find(Q[q], w.docs["d1"]))
                if tuple(ex) != tuple(ob[:2]):
                    exp, obs = ex, ob
                    break
        elif kind == "reject_many":
            _, e = op
            env = w.env(e)
            bad = 0
            for n in range(70):
                inner = "(" * (n % 7) + "@.a == nosuch(" + "(1)" * (n % 3) + ")" + ")" * (n % 7)
                for q in (f"$[?{inner}]", f"$[?@.a && ({'!' * (n % 2)}(@.b ||", f"$[?count(@[?@[?length({n})]]) ]", f"$[?'{n}]",
                          # rejected in the middle of a string literal, after some valid characters
                          f"$['x{n}\\uD83D']", f"$[?@.b == 'pre{n}\x01fix']", f'$["q{n}\\u12"]'):
                    try:
                        env.compile(q)
                    except Exception as ex:  # noqa: BLE001
                        if "JSONPathError" in [c.__name__ for c in type(ex).__mro__]:
                            bad += 1
            exp = ("ok", None)
            obs = ("ok", None) if bad == 490 else ("err", f"only {bad} of 490 invalid queries were rejected with a JSONPathError")
            if obs[0] == "ok":
                # and the next valid queries with quoted names / literals mean what they say
                exp = m.expect(e, "qM", "d1", w.docs)
                obs = observe(lambda: env.find(Q["qM"], w.docs["d1"]))
                if tuple(exp) == tuple(obs[:2]):
                    exp = ("ok", [["l", 0, "b"]])
                    obs = observe(lambda: env.find("$['l'][0]['b']", w.docs["d1"]))
        elif kind in ("recompile_after_range_change", "refind_after_range_change"):
            # the integer range of ONE environment instance is narrowed between two uses of the same text
            _, e = op
            env = w.env(e)
            use = (lambda: env.compile(Q["qSl"]).find(w.docs["d1"])) if kind.startswith("recompile") \
                else (lambda: env.find(Q["qSl"], w.docs["d1"]))
            exp1 = m.expect(e, "qSl", "d1", w.docs)
            obs1 = observe(use)
            if tuple(exp1) != tuple(obs1[:2]):
                return (i, op, exp1, obs1[:2])
            env.min_int_index = -1  # `$.s[-2:]` is out of range now
            exp = ("err", "JSONPathError")
            obs = observe(use)
            del env.min_int_index  # back to the class default for the rest of the history
        elif kind in ("recompile_after_unregister", "recompile_after_resignature"):
            _, e = op
            env = w.env(e)
            env.function_extensions["f1"] = w.make_f1(F_IMPL[e])
            m.funcs[e].add("f1")
            exp1 = m.expect(e, "qF", "d1", w.docs)
            obs1 = observe(lambda: env.compile(Q["qF"]).find(w.docs["d1"]))
            if tuple(exp1) != tuple(obs1[:2]):
                return (i, op, exp1, obs1[:2])
            if kind == "recompile_after_unregister":
                del env.function_extensions["f1"]
                m.funcs[e].discard("f1")
            else:
                env.function_extensions["f1"] = w.make_f1(F_IMPL[e], ret="VALUE")
                m.funcs[e].discard("f1")
                m.resig = getattr(m, "resig", set()) | {e}
            exp = ("err", "JSONPathError")
            obs = observe(lambda: env.compile(Q["qF"]).find(w.docs["d1"]))
            if kind == "recompile_after_resignature":
                # restore a usable f1 so later operations of the history see the normal signature
                env.function_extensions["f1"] = w.make_f1(F_IMPL[e])
                m.funcs[e].add("f1")
        elif kind == "register":
            _, e = op
            w.env(e).function_extensions["f1"] = w.make_f1(F_IMPL[e])
            m.funcs[e].add("f1")
            exp = obs = ("ok", None)
        else:
            raise AssertionError(op)
        if tuple(exp) != tuple(obs[:2]):
            return (i, op, exp, obs[:2])
        bad = w.docs_intact()
        if bad:
            return (i, op, "document unchanged", {"document_modified": bad})
        if sys.getrecursionlimit() != limit0:
            eff = _recursion_limit_effect(w, limit0)
            if eff:
                return (i, op, eff[0], eff[1])
    return None


def check_case(case):
    hist = [tuple(op) for op in case["history"]]
    bad = run_history(hist)
    if bad:
        return violation("history-diverges", case, {"step": bad[0], "op": list(bad[1]), "expected": bad[2]},
                         {"observed": bad[3]}, "diverges")
    return None


def nontrivial(hist):
    touched = []
    for op in hist:
        touched.append({x for x in op[1:] if isinstance(x, str)} | ({"h%d" % op[1]} if op[0] == "apply" else set()))
    return any(touched[i] & touched[j] for i in range(len(touched)) for j in range(i + 1, len(touched)))


def shards(tier):
    out = [{"part": "short", "i": i} for i in range(len(OPS))]
    out.append({"part": "long"})
    if tier == "thorough":
        out += [{"part": "len3", "i": i, "j": j} for i in range(len(OPS)) for j in range(len(OPS))]
        out += [{"part": "len4", "i": i, "j": j} for i in range(len(OPS_SMALL)) for j in range(len(OPS_SMALL))]
    else:
        out += [{"part": "len3s", "i": i, "j": j} for i in range(len(OPS_SMALL)) for j in range(len(OPS_SMALL))]
    return out


def histories(desc):
    p = desc["part"]
    if p == "short":
        a = OPS[desc["i"]]
        yield (a,)
        for b in OPS:
            yield (a, b)
    elif p == "len3":
        a, b = OPS[desc["i"]], OPS[desc["j"]]
        for c in OPS:
            yield (a, b, c)
    elif p == "len3s":
        a, b = OPS_SMALL[desc["i"]], OPS_SMALL[desc["j"]]
        for c in OPS_SMALL:
            yield (a, b, c)
    elif p == "len4":
        a, b = OPS_SMALL[desc["i"]], OPS_SMALL[desc["j"]]
        for c in OPS_SMALL:
            for d in OPS_SMALL:
                yield (a, b, c, d)
    else:
        # one chained history: every operation many times in rotating order
        long = []
        n = len(OPS)
        for r in range(2000 // n + 1):
            for k in range(n):
                long.append(OPS[(k * (r + 1) + r) % n])
        yield tuple(long[:2000])


def run_shard(desc):
    sh = Shard(PROPERTY)
    for hist in histories(desc):
        sh.states += len(hist) + 1
        sh.transitions += len(hist)
        sh.traces += 1
        sh.evaluations += 1
        if nontrivial(hist):
            sh.nontrivial += 1
        bad = run_history(hist)
        if bad:
            short = hist[: bad[0] + 1]
            sh.violation(violation("history-diverges", {"history": [list(op) for op in short]},
                                   {"step": bad[0], "op": list(bad[1]), "expected": bad[2]},
                                   {"observed": bad[3]}, "diverges"))
        if len(hist) <= 4:
            sh.sample({"history": [list(op) for op in hist]}, limit=1)
    target.fresh()
    return sh
