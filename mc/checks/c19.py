"""C19 — reported error positions are real positions in the query text.

Space: every rejected string of the shared enumerations (token strings, single-edit
neighbours of the corpus) and, for every single-character deletion of every corpus
query, every variant with LF / CRLF / blank-LF-blank / LF-LF inserted at every
position (pairs of positions in thorough), so that errors land on every line; and every
string literal made of <= 6 items over {", ', a, raw TAB, bad escape, truncated escape,
escaped quote} in name and comparison position at the very end of the query.
Oracle: the error carries a token whose index is within [0, len(query)] and whose
query is the query text; the `line L, column C` suffix of str(error) equals the line
(1 + number of LF before the index) and 0-based column (distance from the last LF) of
that index.  A lone CR may or may not be counted as a line break (both accepted).
"""
import re

from mc.checks import lang
from mc.core import impl
from mc.core.explore import Shard, violation
from mc.gen import strings as gs

PROPERTY = "C19"
RULE = (
    "every string rejected by compile() among `$`.T^<=k token strings, all single-edit "
    "neighbours of the corpus, and all single-character deletions of corpus queries with "
    "LF / CRLF / ' LF ' / LF LF inserted at every position; for each, the error's token index "
    "and the printed line/column are recomputed from the query text; distinct by construction; "
    "non-trivial = rejected strings that contain a line break (line > 1 is possible)"
)
ASSUMPTIONS = [
    "column is 0-based (as the repository's own two position tests fix it); lines are separated by LF; a lone CR is accepted either way",
]
POS = re.compile(r"line\s*:?\s*(-?\d+)\D{1,12}col(?:umn)?\s*:?\s*(-?\d+)")
BREAKS = ["\n", "\r\n", " \n ", "\n\n"]


def BOUNDS(tier):
    return {"token_alphabet": lang.NT, "max_tokens_after_root": lang.tok_depth(tier),
            "line_break_insertions_per_string": 1 if tier == "quick" else 2, "breaks": BREAKS}


def shards(tier):
    out = lang.shards(tier)
    n = len(gs.corpus())
    out += [{"space": "nl", "k": k, "n": 1 if tier == "quick" else 2} for k in range(n)]
    out += [{"space": "lits", "i": i} for i in range(len(LIT_ITEMS))]
    out += [{"space": "typing", "name": n} for n in ("length", "count", "match", "search", "value", "nosuch")]
    return out


# string literals whose error is reported relative to the literal: every sequence of <= 6 items
LIT_ITEMS = ['"', "'", "a", "\t", "\\x", "\\u12", "\\\""]


def deletions(q):
    seen = set()
    for i in range(len(q)):
        s = q[:i] + q[i + 1:]
        if s not in seen:
            seen.add(s)
            yield s


def strings_of(desc):
    if desc["space"] == "typing":
        # every built-in called with every argument shape in every position (most are ill-typed):
        # the type / name error must carry a real position, also across line breaks
        import itertools
        from mc.checks import c05
        name = desc["name"]
        n = len(c05.rt.BUILTINS.get(name, ((None,), None))[0])
        for k in sorted({n, max(0, n - 1), n + 1}):
            for args in itertools.product(c05.ARG_SHAPES[:16] + ["length(@)", "match(@, 'a')", "count(@.*)"], repeat=k):
                call = f"{name}({', '.join(args)})"
                for q in c05.positions(call)[:9]:
                    yield q
                    yield q.replace("[?", "[?\n ", 1)
        return
    if desc["space"] == "lits":
        import itertools
        first = LIT_ITEMS[desc["i"]]
        for k in range(0, 6):
            for rest in itertools.product(LIT_ITEMS, repeat=k):
                body = first + "".join(rest)
                for q in ("'", '"'):
                    yield f"$[{q}{body}{q}]"
                    yield f"$[?@=={q}{body}{q}]"
                    yield f"$\n[{q}{body}{q}"
        return
    if desc["space"] != "nl":
        yield from lang.strings_of(desc)
        return
    q = gs.corpus()[desc["k"]]
    seen = set()
    for s in list(deletions(q)) + [q + "]", q + " ", "x" + q]:
        for i in range(len(s) + 1):
            for b in BREAKS:
                t = s[:i] + b + s[i:]
                if t not in seen:
                    seen.add(t)
                    yield t
                if desc["n"] == 2:
                    for j in range(i + len(b), len(t) + 1, 2):
                        u = t[:j] + "\n" + t[j:]
                        if u not in seen:
                            seen.add(u)
                            yield u


def expected_positions(query, index):
    """set of acceptable (line, column) for an index (CR-as-newline tolerated)"""
    out = set()
    before = query[:index]
    line = before.count("\n") + 1
    col = index - (before.rfind("\n") + 1)
    out.add((line, col))
    # a reading that also treats a lone CR as a line terminator
    line2 = len(re.findall(r"\r\n|\n|\r", before)) + 1
    last = max(before.rfind("\n"), before.rfind("\r"))
    out.add((line2, index - (last + 1)))
    return out


def check_query(text):
    try:
        impl.jp.compile(text)
        return None, False
    except impl.JSONPathError as e:
        err = e
    except Exception as e:  # noqa: BLE001
        # rejected, but not by an error that can carry a position at all
        return violation("rejected-without-position", {"query": text}, "a JSONPathError with a token",
                         {"raised": type(e).__name__}, "bad-position"), True
    case = {"query": text}
    tok = getattr(err, "token", None)
    try:
        msg = str(err)
    except Exception as e2:  # noqa: BLE001
        return violation("str-failed", case, "str(error)", type(e2).__name__, "bad-position"), True
    if tok is None:
        return violation("no-token", case, "error carries a token", {"error": type(err).__name__, "msg": msg[:120]},
                         "bad-position"), True
    idx = getattr(tok, "index", None)
    if not isinstance(idx, int) or isinstance(idx, bool) or idx < 0 or idx > len(text):
        return violation("index-out-of-text", case, f"0 <= index <= {len(text)}",
                         {"index": idx, "msg": msg[:120]}, "bad-position"), True
    if getattr(tok, "query", None) != text:
        return violation("token-of-other-text", case, "token.query is the query text",
                         {"token_query": repr(getattr(tok, "query", None))[:80]}, "bad-position"), True
    ms = POS.findall(msg.lower() if "line" not in msg else msg)
    m = None
    if ms:
        class _M:  # last occurrence
            def __init__(self, g):
                self.g = g

            def group(self, i):
                return self.g[i - 1]
        m = _M(ms[-1])
    if not m:
        return violation("no-position-in-message", case, "message ends with line/column", {"msg": msg[:160]},
                         "bad-position"), True
    got = (int(m.group(1)), int(m.group(2)))
    want = expected_positions(text, idx)
    if got not in want:
        return violation("wrong-line-column", case, {"index": idx, "line_column_any_of": sorted(want)},
                         {"line": got[0], "column": got[1]}, "bad-position"), True
    return None, True


def check_case(case):
    return check_query(case["query"])[0]


def run_shard(desc):
    sh = Shard(PROPERTY)
    first = None
    for text in strings_of(desc):
        if first is None:
            first = text
        sh.states += 1
        sh.transitions += 1
        sh.traces += 1
        sh.evaluations += 1
        v, rejected = check_query(text)
        if rejected:
            sh.bump("rejected")
            if "\n" in text or "\r" in text:
                sh.nontrivial += 1
        if v:
            sh.violation(v)
    sh.sample({"space": desc, "first_string": first}, limit=1)
    return sh
