"""Shared exploration engine of the language properties (C03, C04, C13, C19):
enumerates query strings (token strings, single-edit neighbours and prefixes of a
valid corpus), classifies each with R2 (+R1 on every string that matters) and runs the
real compile().  The property modules supply the oracle."""
from mc.core import impl
from mc.gen import strings as gs
from mc.ref import abnf
from mc.ref import typing as rt

NT = len(gs.TOKENS)


# nearly-valid queries that need more than one edit of a corpus query to be reached: every
# non-singular shape as a comparison operand / ValueType argument, and the invalid corpus of C15
HANDWRITTEN = [
    # number literals beyond the range of a double, with and without fraction / exponent sign
    "$[?@.a == 1e400]", "$[?@ < 17e310]", "$[?@ == -1E999]", "$[?@ == 1.5e400]", "$[?1e400 == @]", "$[?@.a == 1e+400]",
    "$[?@ == 1e-400]", "$[\n?@ ==\n 2e308]", "$[?length(@) < 1e309]",
    # integers just outside / at the I-JSON range, in index and in every slice slot
    "$[9007199254740992]", "$[-9007199254740992]", "$[1:9007199254740992]", "$[-9007199254740992:]",
    "$[::9007199254740992]", "$[9007199254740992:1]", "$[?@[1:9007199254740992]]", "$[?count(@[::-9007199254740992]) == 1]",
    "$[9007199254740991]", "$[:9007199254740991:9007199254740991]", "$[0,\n 1:9007199254740992]",
    "$[?@['a','b'] == 1]", "$[?@[0,1] == 1]", "$[?1 != $.x['a',0]]", "$[?@[0:1] == 1]", "$[?@[*] == 1]", "$[?@..a == 1]",
    "$[?@[?@.a] == 1]", "$[?@.* == @.*]", "$[?$..a < 1]", "$[?@['a', 'b'] == @['a', 'b']]", "$[?@.a[0,0] >= 0]",
    "$[?length(@['a','b']) == 1]", "$[?match(@[0,1], 'a')]", "$[?value(@.a) == @['a','a']]", "$[?@[1:2].a == 1]",
    "$[?@['a'][*] != null]", "$[?(@['a','b']) == 1]", "$[?!(@[0,1] == 1)]", "$[?@.a == 1 || @['a','b'] == 2]",
    "$[?length(match(@.a, 'x')) == 1]", "$[?count(length(@.a)) > 1]", "$[?match(count(@.*), 'a')]", "$[?value(length(@)) == 1]",
    "$[?length(search(@, 'a')) > 0]", "$[?count(value(@.*)) == 1]", "$[?match(@.a, match(@.b, 'c'))]", "$[?length(@.a, !@.b) == 1]",
    "$[?match(@.a, 'x', (@.b))]", "$[?count(@.*, 1, 2) == 1]", "$[?value() == 1]", "$[?nosuch(length(@))]",
    "$[?match((\"a\"), value(@.b))]", "$[?search(('a'), length(@.b))]", "$[?match((1), match(@.a, 'b'))]",
    "$[?match(value(@.b), (\"a\"))]", "$[?length((\"a\")) == 1]", "$[?count((1), @.a) == 1]", "$[?(@ @)]", "$[?(@.a !@.b)]",
    "$[?count((@.a, 1)) > 1]", "$[?((@.a) 1)]", "$[?(@.a (@.b))]",
    "$[?(@.a 1)]", "$[?(@.a @.b)]", "$[?(@.a == 1 2)]", "$[?!(@.a null)]", "$[?count((@.* 1)) == 1]", "$[?(1 2) == 3]",
    "$[?count(@[?@['a','b'] == 1]) == 1]", "$[?@[?@[0,1] == 1]]", "$[?@[ 'a' , 'b' ] == 1]", "$[?@[0 , 1] == 1]",
]


def tok_depth(tier):
    return 4 if tier == "quick" else 5


def shards(tier, with_prefixes=False):
    out = []
    d = tok_depth(tier)
    for i in range(NT):
        for j in range(NT):
            out.append({"space": "tok", "i": i, "j": j, "rest": d - 2})
    out.append({"space": "tok_short"})
    out.append({"space": "tok_noroot"})
    out.append({"space": "handwritten"})
    n = len(gs.corpus())
    for k in range(n):
        out.append({"space": "edit", "k": k})
        out.append({"space": "tokins", "k": k, "n": 1 if tier == "quick" else 2})
    if with_prefixes:
        out.append({"space": "prefix"})
    return out


def strings_of(desc):
    sp = desc["space"]
    if sp == "tok":
        yield from gs.token_strings(("$", gs.TOKENS[desc["i"]], gs.TOKENS[desc["j"]]), desc["rest"])
    elif sp == "tok_short":
        yield "$"
        for t in gs.TOKENS:
            yield "$" + t
    elif sp == "handwritten":
        yield from HANDWRITTEN
    elif sp == "tok_noroot":
        yield ""
        for t in gs.TOKENS:
            if t != "$":
                yield t
                for u in gs.TOKENS:
                    yield t + u
                    yield t + "$" + u
    elif sp == "edit":
        yield from gs.edits(gs.corpus()[desc["k"]])
    elif sp == "tokins":
        # token-level edits: every token of the alphabet (every ordered pair of tokens in
        # thorough) inserted at every position of a corpus query
        q = gs.corpus()[desc["k"]]
        seen = {q}
        for i in range(len(q) + 1):
            for t in gs.TOKENS:
                s1 = q[:i] + t + q[i:]
                if s1 not in seen:
                    seen.add(s1)
                    yield s1
                if desc["n"] == 2:
                    for u in gs.TOKENS:
                        s2 = q[:i] + t + u + q[i:]
                        if s2 not in seen:
                            seen.add(s2)
                            yield s2
    elif sp == "prefix":
        for q in gs.corpus():
            yield from gs.prefixes(q)


def compile_outcome(text, env=None):
    return impl.run((env or impl.jp).compile, text)


def r1_agrees(text, verdict):
    """R1 (generic ABNF engine) must agree with R2 on grammar membership."""
    if verdict.cls == "grey":
        return True
    in_l = abnf.in_language(text)
    return in_l == (verdict.cls in ("valid", "ill-typed"))


def explore(sh, desc, judge, r1_all=False):
    """judge(text, verdict, outcome) -> violation | None ; counts what it covers"""
    for text in strings_of(desc):
        sh.states += 1
        sh.transitions += 1
        verdict = rt.classify(text)
        outcome = compile_outcome(text)
        sh.traces += 1
        sh.evaluations += 1
        sh.bump("class_" + verdict.cls)
        if r1_all and not r1_agrees(text, verdict):
            raise AssertionError(f"R1/R2 disagree on {text!r}: R2={verdict}")
        v = judge(text, verdict, outcome)
        if v is not None:
            if not r1_agrees(text, verdict):
                raise AssertionError(f"R1/R2 disagree on {text!r}: R2={verdict}")
            sh.violation(v)
