"""C06 — comparison operators implement the RFC 9535 comparison table.

Alphabet: ordered pairs over KINDS + NOTHING, six operators, and every way of
producing a comparand: relative singular query (dot / bracket / index), absolute
singular query, literal (several spellings), value(), length().
Bound: the full product.  Oracle: R3's comparison table (DESIGN.md appendix D).
All pairs are laid out as children of one array so a single find() evaluates one
(operator, production) on every pair; disagreeing children are re-run one by one.
"""
from mc.core import diff, impl
from mc.core.explore import Shard, violation
from mc.gen import docs as gdocs
from mc.ref import eval as ev

PROPERTY = "C06"
RULE = (
    "full product: ordered pairs over the KINDS table (every JSON kind incl. falsy and "
    "bool-vs-number confusables at depth 0..2) plus 'nothing' x 6 operators x "
    "production ways (relative dot/bracket/index query, absolute query, value(), "
    "length(), literal in several spellings, on either side); each child of the "
    "document is one pair; non-trivial = comparison true in the reference model for "
    "that (pair, operator, production); distinct by construction"
)
ASSUMPTIONS = ["oracle = comparison table transcribed from RFC 9535 2.3.5.2.2 (DESIGN.md appendix D)"]
OPS = ["==", "!=", "<", "<=", ">", ">="]
ABSENT = object()

LITERALS = [
    (1, ["1", "1.0", "1e0", "1E+0", "10e-1"]), (0, ["0", "-0", "0.0", "-0.0"]),
    (-1, ["-1", "-1.0"]), (2, ["2"]), (2.5, ["2.5", "25e-1", "0.25E1"]),
    (2**53 - 1, ["9007199254740991"]), ("", ["''", '""']), ("a", ["'a'", '"a"', "'\\u0061'"]),
    ("b", ["'b'"]), ("ab", ["'ab'"]), ("1", ["'1'"]), ("\U0001F600", ["'\U0001F600'", "'\\uD83D\\uDE00'"]),
    ("A", ["'A'"]), (True, ["true"]), (False, ["false"]), (None, ["null"]),
]


def BOUNDS(tier):
    k = len(gdocs.kinds()) + 1
    return {"comparands": k, "ordered_pairs": k * k, "operators": 6,
            "productions": ["@.l|@.r", "@['l']|@['r']", "@[0]|@[1]", "$.l|$.r", "value(@.l)|value(@.r)",
                            "length(@.l)|@.r", "@.l|literal", "literal|@.r", "literal|literal"]}


def pairs():
    ks = gdocs.kinds() + [ABSENT]
    return [(a, b) for a in ks for b in ks]


def obj_doc(ps):
    out = []
    for a, b in ps:
        d = {}
        if a is not ABSENT:
            d["l"] = a
        if b is not ABSENT:
            d["r"] = b
        out.append(d)
    return out


def shards(tier):
    out = []
    for op in OPS:
        for way in ("dot", "bracket", "index", "value", "length", "mixed"):
            out.append({"part": way, "op": op})
        out.append({"part": "abs", "op": op})
        out.append({"part": "lit", "op": op})
    return out


check_case = diff.check_query_doc


def batch(sh, query, doc):
    """one find over all children; on disagreement re-run child by child"""
    v = diff.ast_of(query)
    assert v.cls == "valid", (query, v)
    exp = ev.evaluate(v.ast, doc)
    n = len(doc)
    sh.evaluations += n
    sh.traces += 1
    sh.states += n
    sh.transitions += n
    sh.nontrivial += len(exp)
    r = impl.run(impl.jp.compile, query)
    if r[0] != "ok":
        sh.violation(violation("compile-raised", {"query": query}, "compiles",
                               {"raised": r[1], "msg": r[3]}, "wrong"))
        return
    d = diff.diff(query, doc, compiled=r[1])
    sh.sample({"query": query, "doc": impl.jsonable(doc[:1] if isinstance(doc, list) else doc)}, limit=1)
    if d is None:
        return
    found = False
    for case in diff.per_child_cases(query, doc):
        vv = check_case(case)
        if vv:
            found = True
            sh.violation(vv)
    if not found:
        sh.violation(violation(d[0], {"query": query, "doc": impl.jsonable(doc)}, d[1], d[2], "wrong"))


def run_shard(desc):
    sh = Shard(PROPERTY)
    op = desc["op"]
    part = desc["part"]
    ps = pairs()
    if part == "dot":
        batch(sh, f"$[?@.l {op} @.r]", obj_doc(ps))
        batch(sh, f"$[?@.l{op}@.r]", obj_doc(ps))
        # the same comparison under a negation: `!` is the classical complement of the table entry, not
        # the "opposite" operator (the ordering is partial)
        batch(sh, f"$[?!(@.l {op} @.r)]", obj_doc(ps))
        batch(sh, f"$[?!(@.l {op} @.r) && !(@.r {op} @.l)]", obj_doc(ps))
    elif part == "bracket":
        batch(sh, f"$[?@['l'] {op} @[\"r\"]]", obj_doc(ps))
    elif part == "index":
        # arrays [L, R]; 'nothing' on the right = missing element, on the left = index 5
        doc = [[a, b] for a, b in ps if a is not ABSENT and b is not ABSENT]
        batch(sh, f"$[?@[0] {op} @[1]]", doc)
        batch(sh, f"$[?@[-2] {op} @[-1]]", doc)
        doc = [[a] for a, b in ps if b is ABSENT and a is not ABSENT] + [[]]
        batch(sh, f"$[?@[0] {op} @[1]]", doc)
        batch(sh, f"$[?@[5] {op} @[0]]", doc)
        # index selectors applied to what is not an array (strings above all) produce nothing
        batch(sh, f"$[?@.l[0] {op} @.r[-1]]", obj_doc(ps))
        batch(sh, f"$[?@[0] {op} @[-1]]", [a for a in gdocs.kinds()])
        batch(sh, f"$[?@.l[0] {op} @.l]", obj_doc(ps))
    elif part == "value":
        batch(sh, f"$[?value(@.l) {op} value(@.r)]", obj_doc(ps))
        batch(sh, f"$[?value(@.l) {op} @.r]", obj_doc(ps))
        # value() of several nodes is nothing
        batch(sh, f"$[?value(@.*) {op} @.r]", obj_doc(ps))
    elif part == "length":
        batch(sh, f"$[?length(@.l) {op} @.r]", obj_doc(ps))
        batch(sh, f"$[?@.l {op} length(@.r)]", obj_doc(ps))
    elif part == "mixed":
        batch(sh, f"$[?@.l {op} value(@['r'])]", obj_doc(ps))
        batch(sh, f"$[?@ {op} @.r]", obj_doc(ps))
        batch(sh, f"$[?@.l {op} @]", obj_doc(ps))
        batch(sh, f"$[?@ {op} @]", [a for a in gdocs.kinds()])
        batch(sh, f"$[?@.l.k {op} @.r.k]", obj_doc(ps))
    elif part == "abs":
        for a, b in ps:
            d = {"c": [0]}
            if a is not ABSENT:
                d["l"] = a
            if b is not ABSENT:
                d["r"] = b
            query = f"$.c[?$.l {op} $.r]"
            sh.evaluations += 1
            sh.traces += 1
            sh.states += 1
            sh.transitions += 1
            dd = diff.diff(query, d)
            v = diff.ast_of(query)
            if ev.evaluate(v.ast, d):
                sh.nontrivial += 1
            if dd:
                sh.violation(violation(dd[0], {"query": query, "doc": impl.jsonable(d)}, dd[1], dd[2], "wrong"))
    elif part == "lit":
        ks = gdocs.kinds() + [ABSENT]
        left_doc = obj_doc([(a, ABSENT) for a in ks])
        right_doc = obj_doc([(ABSENT, b) for b in ks])
        for val, spellings in LITERALS:
            for sp in spellings:
                batch(sh, f"$[?@.l {op} {sp}]", left_doc)
                batch(sh, f"$[?{sp} {op} @.r]", right_doc)
                batch(sh, f"$[?@ {op} {sp}]", [a for a in gdocs.kinds()])
        for v1, sp1 in LITERALS:
            for v2, sp2 in LITERALS:
                for s1 in sp1[:2]:
                    for s2 in sp2[:2]:
                        batch(sh, f"$[?{s1} {op} {s2}]", [0])
    return sh
