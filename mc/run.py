"""./check <Cxx> [quick|thorough] [--replay <file>]"""
import importlib
import os
import sys

HERE = os.path.dirname(os.path.abspath(__file__))
VERIF = os.path.dirname(HERE)
sys.path.insert(0, VERIF)
sys.setrecursionlimit(max(sys.getrecursionlimit(), 3000))
try:  # debugging aid: `kill -USR1 <pid>` dumps all thread stacks of a check process
    import faulthandler
    import signal
    faulthandler.register(signal.SIGUSR1, all_threads=True)
except Exception:  # noqa: BLE001
    pass


def main(argv):
    if not argv:
        print(__doc__)
        return 2
    prop = argv[0].upper()
    tier = os.environ.get("VERIF_TIER", "quick")
    replay_path = None
    i = 1
    while i < len(argv):
        a = argv[i]
        if a in ("quick", "thorough"):
            tier = a
        elif a == "--replay":
            i += 1
            replay_path = argv[i]
        else:
            print("unknown argument", a)
            return 2
        i += 1
    try:
        seed = int(os.environ.get("VERIF_SEED", "0") or 0)
    except ValueError:
        seed = 0

    from mc.core import explore, target

    err = target.bind()
    if err is not None:
        # No behavioural property can hold if the package cannot be imported.
        case = {"import": "jsonpath_rfc9535"}
        v = explore.violation("import-failed", case, "package imports", err, "import-failed")
        v["key"] = explore.case_key(prop, case, "import-failed")
        if replay_path:
            print(f"VIOLATION property={prop} replay={replay_path}")
            return 1
        path = explore.write_replay(prop, v)
        print(f"VIOLATION property={prop} replay={path}")
        print("  package under test cannot be imported:\n" + err)
        explore.write_evidence(prop, {
            "property_id": prop, "tier": tier, "seed": seed, "level": "model_checking",
            "coverage": {"states": 1, "transitions": 1, "traces_validated_against_impl": 0,
                         "samples": [case], "evaluations": 1, "distinct_nontrivial": 0,
                         "rule": "import of the package under test failed"},
            "wall_s": 0.0, "violations": 1})
        return 1

    mod = importlib.import_module("mc.checks." + prop.lower())
    if replay_path:
        return explore.replay(mod, replay_path)
    return explore.run_check(mod, tier, seed)


if __name__ == "__main__":
    sys.exit(main(sys.argv[1:]))
