#!/venv/bin/python
"""Developer-only, one-off: dump the RFC example tables that the repository's own test
modules carry (IETF examples, Goessner examples, well-typedness table, nondeterminism
cases, I-Regexp validity lists, normalized paths, lexer/parser corpora) into
/verif/fixtures/*.json so that the reference model can be self-tested against them
without importing the test-suite at check time."""
import importlib, json, os, sys
sys.path.insert(0, "/repo"); sys.path.insert(0, "/repo/tests")
OUT = os.path.join(os.path.dirname(os.path.dirname(os.path.abspath(__file__))), "fixtures")
os.makedirs(OUT, exist_ok=True)

def dump(name, obj):
    json.dump(obj, open(os.path.join(OUT, name), "w"), indent=1, ensure_ascii=True)
    print(name, len(obj))

ex = []
for m in ("test_ietf_examples", "test_goessner"):
    mod = importlib.import_module(m)
    for c in mod.TEST_CASES:
        ex.append({"src": m, "description": c.description, "query": c.query, "data": c.data, "want": c.want})
dump("examples.json", ex)
m = importlib.import_module("test_ietf_well_typedness")
dump("welltyped.json", [{"query": c.query, "valid": c.valid, "description": c.description} for c in m.TEST_CASES])
m = importlib.import_module("test_nondeterminism")
dump("nondeterminism.json", [{"query": c.query, "data": c.data, "want": c.want, "description": c.description} for c in m.TEST_CASES])
m = importlib.import_module("test_iregexp")
dump("iregexp.json", [{"pattern": c.pattern, "valid": True} for c in m.VALID_TEST_CASES] + [{"pattern": c.pattern, "valid": False} for c in m.INVALID_TEST_CASES])
m = importlib.import_module("test_normalized_path")
dump("normalized.json", [{"query": c.query, "data": c.data, "want": c.want} for c in m.TEST_CASES])
m = importlib.import_module("test_lex")
lexq = [c.query for c in m.TEST_CASES]
m = importlib.import_module("test_parse")
dump("parse.json", [{"query": c.query, "want": c.want} for c in m.TEST_CASES])
dump("lex_queries.json", lexq)
m = importlib.import_module("test_errors")
dump("invalid.json", [c.query for c in m.BAD_FILTER_LITERAL_TEST_CASES] + ["$[1,2", "$[?@.a < 1", "$[?(length()==1)]", "$[?(length(@.a, @.b)==1)]", "$[?@.* > 2]"])
