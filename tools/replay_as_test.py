#!/usr/bin/env python3
"""tools/replay_as_test.py <replay.json> [<out.py>]

Writes a plain pytest file that replays one recorded violation WITHOUT the explorer: it binds
the package under test (VERIF_REPO or /repo), rebuilds the recorded case (query / document /
history / schedule / choice sequence) and asserts that the property's oracle for that single
case is satisfied.  Run it with   /venv/bin/python -m pytest <out.py>   : it fails while the
violation is present and passes once the code is repaired."""
import json
import os
import sys

VERIF = os.path.dirname(os.path.dirname(os.path.abspath(__file__)))

TEMPLATE = '''"""Replay of {path} (property {prop}, kind {kind}) as a plain test."""
import importlib
import json
import sys

sys.path.insert(0, {verif!r})
from mc.core import target  # noqa: E402

target.bind()  # puts VERIF_REPO (default /repo) first on sys.path

CASE = json.loads({case!r})


def test_replay_{key}():
    mod = importlib.import_module("mc.checks.{modname}")
    violation = mod.check_case(CASE)
    assert violation is None, json.dumps({{k: violation[k] for k in ("kind", "expected", "observed")}}, default=str)[:2000]
'''


def main():
    path = sys.argv[1]
    rec = json.load(open(path, encoding="utf8"))
    prop = rec["property"]
    out = sys.argv[2] if len(sys.argv) > 2 else os.path.join(os.path.dirname(path), "test_replay_%s.py" % rec.get("key", "case"))
    src = TEMPLATE.format(path=path, prop=prop, kind=rec.get("kind"), verif=VERIF, case=json.dumps(rec["case"]),
                          key=rec.get("key", "case"), modname=prop.lower())
    open(out, "w", encoding="utf8").write(src)
    print(out)


if __name__ == "__main__":
    main()
