#!/bin/bash
# tools/mutant.sh <patch.diff> <tier> <Cxx> [<Cxx> ...]
# Applies a patch to a scratch copy of /repo (outside /repo and /verif), runs the
# repository's pinned test command on it (must still pass), then runs the named checks
# against the scratch copy through VERIF_REPO, and removes the copy.
set -u
patch="$(readlink -f "$1")"; tier="$2"; shift 2
scratch="$(mktemp -d /tmp/mutant.XXXXXX)"
trap 'rm -rf "$scratch"' EXIT
rsync -a --exclude .git /repo/ "$scratch/"
if ! (cd "$scratch" && patch -p1 --quiet < "$patch"); then echo "PATCH-FAILED"; exit 3; fi
tests=$(cd "$scratch" && timeout 120 /venv/bin/python -B -m pytest -q -p no:cacheprovider --continue-on-collection-errors 2>&1 | tail -1)
echo "tests: $tests"
case "$tests" in *"352 passed"*) ;; *) echo "MUTANT-FAILS-TESTS";; esac
rc=0
for c in "$@"; do
  out=$(cd /verif && VERIF_REPO="$scratch" ./check "$c" "$tier" 2>&1); r=$?
  echo "$out" | grep -E "^(VIOLATION|KNOWN-FINDING|MACHINERY|C[0-9]+ )" | head -8
  echo "check $c $tier exit=$r"
  [ $r -ne 0 ] && rc=$r
done
exit $rc
