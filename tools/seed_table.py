#!/usr/bin/env python3
"""Print the markdown table of seeded changes (DESIGN.md section 8) from seeded/*/meta.json."""
import glob, json, os
HERE = os.path.dirname(os.path.dirname(os.path.abspath(__file__)))
rows = []
for f in sorted(glob.glob(os.path.join(HERE, "seeded", "*", "meta.json"))):
    m = json.load(open(f))
    note = " ".join(m.get("needs_to_manifest", "").split())
    first = note.split(". ")[0][:170]
    caught = ", ".join(m["caught_by"]) or "**missed**"
    rows.append(f"| {m['id']} | {m['breaks_property']} | {first} | {caught} |")
print("| seeded change | property | what it is (from the author's note) | caught by (first tier that reports it) |")
print("|---|---|---|---|")
print("\n".join(rows))
