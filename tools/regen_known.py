#!/venv/bin/python
"""Developer-only: regenerate known/<F-id>.keys for the open findings.

Runs the finding's check (both tiers) with VERIF_DUMP, keeps the unlisted violating
cases that match the finding's reviewed predicate (FINDINGS below) and writes their
keys.  The output is reviewed and committed; checks never write these files.
usage: tools/regen_known.py <F-id> [...]
"""
import json, os, re, subprocess, sys, tempfile
HERE = os.path.dirname(os.path.dirname(os.path.abspath(__file__)))

FINDINGS = {
}


def main(ids):
    for fid in ids:
        f = FINDINGS[fid]
        kpath = os.path.join(HERE, "known", fid + ".keys")
        if os.path.exists(kpath):
            os.rename(kpath, kpath + ".old")  # so that the cases show up as unlisted
        keys = {}
        try:
            for tier in f["tiers"]:
                with tempfile.NamedTemporaryFile(suffix=".dump", delete=False) as tf:
                    dump = tf.name
                env = dict(os.environ, VERIF_DUMP=dump)
                subprocess.run([os.path.join(HERE, "check"), f["property"], tier], env=env,
                               stdout=subprocess.DEVNULL, cwd=HERE)
                other = 0
                for line in open(dump, encoding="utf8"):
                    r = json.loads(line)
                    if f["match"](r):
                        keys[r["key"]] = json.dumps(r["case"], ensure_ascii=True, sort_keys=True)
                    else:
                        other += 1
                os.unlink(dump)
                print(fid, tier, "matching so far:", len(keys), "non-matching violations:", other)
        finally:
            if os.path.exists(kpath + ".old"):
                os.unlink(kpath + ".old")
        with open(kpath, "w", encoding="utf8") as out:
            out.write(f"# {fid}: keys of the failing cases (key = sha1(property, case, outcome class)[:20])\n")
            for k in sorted(keys):
                out.write(k + "\n")
        print("wrote", kpath, len(keys))


if __name__ == "__main__":
    main(sys.argv[1:])
