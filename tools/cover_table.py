#!/usr/bin/env python3
"""Prints the 'As built: what each quick check covers (measured)' table of DESIGN.md from
evidence/*.json; with --write the table in DESIGN.md is replaced in place."""
import json
import os
import sys

VERIF = os.path.dirname(os.path.dirname(os.path.abspath(__file__)))
HEAD = ("| check | states | executions of the real code | non-trivial cases | wall (16 cores) | bounds completed "
        "(quick tier; from the evidence file) |")


def table():
    rows = [HEAD, "|---|---|---|---|---|---|"]
    for i in range(1, 21):
        cid = "C%02d" % i
        d = json.load(open(os.path.join(VERIF, "evidence", cid + ".json")))
        c = d["coverage"]
        b = json.dumps(c.get("bounds", {}), ensure_ascii=True)
        if len(b) > 420:
            b = b[:420] + "..."
        rows.append("| %s | %s | %s | %s | %d s | `%s` |" % (
            cid, f"{c['states']:,}", f"{c['traces_validated_against_impl']:,}", f"{c['distinct_nontrivial']:,}",
            round(d["wall_s"]), b.replace("|", "\\|")))
    return rows


if __name__ == "__main__":
    rows = table()
    if "--write" not in sys.argv:
        print("\n".join(rows))
        sys.exit(0)
    p = os.path.join(VERIF, "DESIGN.md")
    lines = open(p, encoding="utf8").read().split("\n")
    start = [i for i, l in enumerate(lines) if l.startswith("| check | states |")][0]
    end = start
    while end < len(lines) and lines[end].startswith("|"):
        end += 1
    lines[start:end] = rows
    open(p, "w", encoding="utf8").write("\n".join(lines))
    print("table rewritten:", len(rows) - 2, "rows")
