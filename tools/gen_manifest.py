#!/usr/bin/env python3
"""Developer tool: regenerate MANIFEST.json from tools/manifest_src.json-like table below."""
import json, os, sys
HERE = os.path.dirname(os.path.dirname(os.path.abspath(__file__)))
sys.path.insert(0, HERE)
from tools.manifest_table import CHECKS, PENDING  # noqa: E402

props = [json.loads(l) for l in open(os.path.join(HERE, "properties.jsonl"))]
ids = [p["id"] for p in props]
checks = []
for pid in ids:
    if pid in CHECKS:
        c = CHECKS[pid]
        checks.append({
            "property_id": pid,
            "quick_cmd": f"./check {pid} quick",
            "thorough_cmd": f"./check {pid} thorough",
            "evidence_file": f"/verif/evidence/{pid}.json",
            "replay_cmd_template": f"./check {pid} --replay {{path}}",
            "engine": "mc-explorer",
            "level_claimed": {"category": "model_checking", "text": c["text"], "design_ref": c["ref"]},
            "level_note": c["note"],
            "technique": c["technique"],
        })
na = [{"property_id": pid, "reason": PENDING.get(pid, "check not built yet (work in progress; see DESIGN.md section 10 build order)")}
      for pid in ids if pid not in CHECKS]
m = {
    "version": 1,
    "setup_cmd": "cd /verif && /venv/bin/python -B tools/selftest.py",
    "hooks": {
        "guard": "JSONPATH_RFC9535_VERIF",
        "enable": "no source hooks: checks import the package from /repo's working tree (VERIF_REPO overrides) and intercept random/threads/CLI from outside",
        "baseline_off_cmd": "cd /repo && env -u JSONPATH_RFC9535_VERIF /venv/bin/python -m pytest -ra -q -p no:cacheprovider --timeout=900 --continue-on-collection-errors",
        "source_commits": [],
        "add_only": True,
    },
    "engines": [{
        "name": "mc-explorer",
        "path": "/verif/mc",
        "serves_properties": sorted(CHECKS),
        "kind_free_text": "hand-written bounded-exhaustive explicit-state explorer (Python) driving the real package against a Python reference model of RFC 9535 / RFC 9485; sharded over 16 processes; no sampling",
    }],
    "checks": checks,
    "not_applicable": na,
    "notes": "See DESIGN.md. Exit codes: 0 held, 1 VIOLATION, 2 machinery error. Known findings: known_findings.txt + known/*.keys.",
}
json.dump(m, open(os.path.join(HERE, "MANIFEST.json"), "w"), indent=1)
print("checks:", len(checks), "not_applicable:", len(na))
