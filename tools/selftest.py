#!/usr/bin/env python3
"""setup_cmd: nothing is built; verify the machinery's own oracles before any check."""
import os, sys
HERE = os.path.dirname(os.path.dirname(os.path.abspath(__file__)))
sys.path.insert(0, HERE)
os.environ.setdefault("VERIF_REPO", "/repo")

def main():
    failures = 0
    try:
        from mc.ref import selfcheck
    except ImportError:
        selfcheck = None
    if selfcheck is not None:
        failures += selfcheck.run(verbose=True)
    print("selftest failures:", failures)
    return 1 if failures else 0

if __name__ == "__main__":
    sys.exit(main())
