#!/bin/bash
# tools/refactor_eval.sh <diff> [<Cxx> ...]   (default: all 20 checks, quick tier)
# Applies a behaviour-preserving refactoring to a scratch copy of /repo HEAD, runs the repository
# tests and the checks; every check must stay silent (exit 0). Anything else is a false alarm to
# investigate (or the refactoring is not behaviour-preserving after all).
set -u
diff="$(readlink -f "$1")"; shift
checks="${*:-C01 C02 C03 C04 C05 C06 C07 C08 C09 C10 C11 C12 C13 C14 C15 C16 C17 C18 C19 C20}"
scratch="$(mktemp -d /tmp/refac.XXXXXX)"
trap 'rm -rf "$scratch"' EXIT
git -C /repo archive "${SEED_BASE:-HEAD}" | tar -x -C "$scratch"
if ! (cd "$scratch" && patch -p1 --quiet < "$diff"); then echo "PATCH-DOES-NOT-APPLY"; exit 3; fi
echo "tests: $(cd "$scratch" && timeout 300 /venv/bin/python -B -m pytest -q -p no:cacheprovider --continue-on-collection-errors 2>&1 | tail -1)"
bad=0
for c in $checks; do
  o=$(cd /verif && VERIF_REPO="$scratch" timeout 3000 ./check "$c" quick 2>&1); r=$?
  if [ $r -ne 0 ]; then bad=1; echo "ALARM $c exit=$r"; echo "$o" | grep -A1 -E "^VIOLATION|MACHINERY" | head -6 | cut -c1-500; fi
done
echo "RESULT $(basename "$diff"): alarms=$bad"
