#!/bin/bash
# tools/seed_eval.sh <out-dir> <k> <seed-id> <Cxx> [<Cxx> ...]
# Confirms a sub-agent's change (applies on a scratch copy of /repo HEAD, repository tests
# still pass, demo fails with / passes without the change), runs the named checks against
# it (quick, then thorough if quick is silent) and files it under /verif/seeded/<seed-id>/.
set -u
out="$1"; k="$2"; sid="$3"; shift 3
diff="$out/change$k.diff"; demo="$out/demo$k.py"; note="$out/note$k.txt"
scratch="$(mktemp -d /tmp/seed.XXXXXX)"
trap 'rm -rf "$scratch"' EXIT
mkdir -p "$scratch/clean" "$scratch/mut"
git -C /repo archive "${SEED_BASE:-HEAD}" | tar -x -C "$scratch/clean"
git -C /repo archive "${SEED_BASE:-HEAD}" | tar -x -C "$scratch/mut"
if ! (cd "$scratch/mut" && git apply --unsafe-paths --directory="$scratch/mut" "$diff" 2>/dev/null || patch -p1 --quiet < "$diff"); then echo "RESULT $sid: PATCH-DOES-NOT-APPLY"; exit 3; fi
tests=$(cd "$scratch/mut" && timeout 300 /venv/bin/python -B -m pytest -q -p no:cacheprovider --continue-on-collection-errors 2>&1 | tail -1)
echo "tests with change: $tests"
/venv/bin/python -B "$demo" "$scratch/clean" >/dev/null 2>&1; d0=$?
/venv/bin/python -B "$demo" "$scratch/mut" >/dev/null 2>&1; d1=$?
echo "demo: clean exit=$d0  mutated exit=$d1"
ok=1
case "$tests" in *"352 passed"*) ;; *) ok=0;; esac
[ $d0 -eq 0 ] || ok=0; [ $d1 -ne 0 ] || ok=0
caught=""
ran=""
for c in "$@"; do
  for tier in ${SEED_TIERS:-quick thorough}; do
    o=$(cd /verif && VERIF_REPO="$scratch/mut" timeout 3000 ./check "$c" "$tier" 2>&1); r=$?
    ran="$ran $c:$tier=$r"
    if [ $r -eq 1 ]; then caught="$caught $c:$tier"; echo "$o" | grep -A1 "^VIOLATION" | head -4; break; fi
    if [ $r -ne 0 ]; then echo "$o" | tail -5; fi
  done
done
echo "RESULT $sid: confirmed=$ok caught=[$caught ] ran=[$ran ]"
if [ $ok -eq 1 ]; then
  d="/verif/seeded/$sid"; mkdir -p "$d"
  cp "$diff" "$d/patch.diff"; cp "$demo" "$d/demo.py"; [ -f "$note" ] && cp "$note" "$d/note.txt"
  python3 - "$d" "$sid" "$tests" "$d0" "$d1" "$caught" "$ran" "$@" <<'PY'
import json,sys,os
d,sid,tests,d0,d1,caught,ran=sys.argv[1:8]; props=sys.argv[8:]
note=open(os.path.join(d,"note.txt")).read() if os.path.exists(os.path.join(d,"note.txt")) else ""
json.dump({"id":sid,"breaks_property":props[0],"checked_with":props,"needs_to_manifest":note.strip(),
 "confirmed":{"repository_tests_with_change":tests,"demo_exit_clean_tree":int(d0),"demo_exit_with_change":int(d1)},
 "what_i_ran":"tools/seed_eval.sh: patch applied to a scratch copy of /repo HEAD; repository test command; demo on clean and changed copy; ./check <Cxx> quick then thorough with VERIF_REPO=<scratch>",
 "caught_by":caught.split(),"runs":ran.split()}, open(os.path.join(d,"meta.json"),"w"), indent=1)
PY
fi
