"""Source table for MANIFEST.json (tools/gen_manifest.py)."""
T_EXH = "bounded-exhaustive explicit-state enumeration of inputs, real code vs reference model"
CHECKS = {
    "C07": {
        "text": "Every (array length 0..7/0..12) x (start,end,step) / index combination over the boundary alphabet is executed through find() in four syntactic contexts and compared, node by node (location, element identity, order), with the RFC 2.3.4.2.2 pseudo-code. The space is a finite product enumerated completely, so any arithmetic slip with a witness inside the alphabet is found on every run.",
        "ref": "DESIGN.md section 5, C07",
        "note": "Trusted: the literal transcription of the RFC Normalize/Bounds pseudo-code; values outside the boundary alphabet are not explored.",
        "technique": T_EXH,
    },
}
CHECKS["C01"] = {
    "text": "Depth-first explicit-state search over all sequences (depth<=3 on all JSON trees with <=4 nodes and depth<=2 on <=5 nodes in quick; depth<=3/<=5 nodes and depth<=4/<=4 nodes in thorough) of a 26-segment alphabet (child/descendant x name, index, slice, wildcard and multi-selector lists). A state is (document, reference nodelist); every transition applies one segment in the reference evaluator and runs the real compile()+find() on the whole query text; nodelists are compared as [(location, value identity)] in order with duplicates. A second pass runs every alternative spelling (shorthand, double quotes, blanks) of all depth<=2 queries.",
    "ref": "DESIGN.md section 5, C01",
    "note": "Trusted: reference evaluator mc/ref/eval.py (self-tested on the RFC example tables at setup and by tools/selftest.py). Paths whose reference nodelist became empty are not extended.",
    "technique": T_EXH,
}
CHECKS["C06"] = {
    "text": "The full product of ordered comparand pairs over a 47-entry table of JSON kinds (falsy values, equal int/float pairs, -0.0, non-BMP strings, arrays/objects differing only by bool-vs-number leaves) plus 'nothing', six operators and nine ways of producing a comparand (relative/absolute singular queries, index, value(), length(), literals in several spellings on either side) is evaluated through find() and compared with the RFC comparison table. 226 908 (pair, operator, production) states per run, none sampled.",
    "ref": "DESIGN.md section 5, C06",
    "note": "Trusted: comparison table transcription (DESIGN.md appendix D), checked against the RFC's own table rows in the self-test.",
    "technique": T_EXH,
}
CHECKS["C02"] = {
    "text": "All filter expressions with <=2 units over 27 atoms x 4 unit forms (x, !x, (x), !(x)), <=3 units over a 16-unit subset (<=4 over 8 in thorough), joined by &&/|| under every parenthesisation/negation of sub-groups, are generated as text, parsed by the reference parser (which alone decides precedence and grouping) and run through the real find() on array and object documents whose children cover every JSON kind (0, false, \"\", null, [], {} included), below $.k, under a descendant segment, inside a nested filter (checks $ scoping), in multi-selector segments, on a value whose containers are shared between several paths, and on scalar roots. 153 036 expressions / 9.9 M (expression, child) evaluations in quick.",
    "ref": "DESIGN.md section 5, C02",
    "note": "Trusted: R2 parser (cross-checked against the ABNF engine R1) and R3 evaluator; match/search atoms use literal patterns only.",
    "technique": T_EXH,
}
CHECKS["C03"] = {
    "text": "Every string the reference recogniser classifies valid among 1.4 M token strings (`$`.T^<=4 over 33 tokens; T^<=5 = 40 M in thorough), all ~200 000 single-edit neighbours of a 190-query corpus and every corpus query with each of 4 blank characters inserted at every position must compile. Lexical rules are covered exhaustively: every Unicode scalar value (BMP + plane boundaries in quick, all 1 112 064 in thorough) as name-first, as name-char, raw inside both quote styles and as \\uXXXX escape; the product of number spellings int x frac x exp; boundary integers in index and slice slots.",
    "ref": "DESIGN.md section 5, C03",
    "note": "Trusted: R2 recogniser + typing, with R1 (generic ABNF engine over the transcribed RFC grammar) re-checking every string that is reported. Grey-zone strings are not required either way.",
    "technique": T_EXH,
}
CHECKS["C04"] = {
    "text": "Every string the reference recogniser classifies as outside the grammar among `$`.T^<=4 (33-token alphabet; T^<=5 in thorough), T^<=2 without `$`, and all single-character deletions/insertions/replacements/transpositions of a 190-query valid corpus (40-character edit alphabet) must make compile() raise a JSONPathError. 1.39 M out-of-grammar strings per quick run, enumerated not sampled.",
    "ref": "DESIGN.md section 5, C04",
    "note": "Trusted: R2 recogniser; any string reported is first re-checked with R1, the generic ABNF engine (disagreement = machinery error, exit 2).",
    "technique": T_EXH,
}
CHECKS["C05"] = {
    "text": "A finite product is enumerated completely: 39 probe functions (every signature {V,L,N}^n -> {V,L,N}, n<=2) + the 5 built-ins + an unknown name, each in 21 syntactic positions (test, under !, inside &&/||, in parentheses, either comparand, argument of a V/L/N parameter, inside nested filters) with 21 argument shapes per parameter; wrong arities; 400 operand pairs x 2 comparison operators; integers at bound-1/bound/bound+1 (and the negated bounds) of 12 configured ranges (symmetric, asymmetric, one-sided, three reaching beyond 2**53; configured on a subclass and on a plain instance) in 14 index/slice slots; the standard functions once more with every query on a fresh environment; one-parameter probes and standard functions on environments whose registry was installed by rebinding the attribute or by a subclass with a dict of its own. compile() on an environment holding the probe registry must succeed exactly when the reference typing judgement says so, must raise a JSONPathError otherwise, and must never call a registered function. 186 538 queries per run.",
    "ref": "DESIGN.md section 5, C05",
    "note": "Trusted: mc/ref/typing.py (RFC 2.4.3) checked against the RFC well-typedness table in the self-test; R1 re-checks grammar membership of every reported query.",
    "technique": T_EXH,
}
CHECKS["C09"] = {
    "text": "Exhaustive over the code space: every Unicode scalar value raw (BMP + plane boundaries in quick, all 1 112 064 in thorough), every \\uXXXX escape 0000-FFFF in lower/upper/mixed hex case, surrogate-pair escapes (8 192 boundary pairs in quick, all 1 048 576 in thorough), \\c for all 128 ASCII c, every truncation of representative escapes and all sequences of <=3 items over a 30-item alphabet of spellings; both quote styles; both positions (name selector, comparison literal). The reference decoder decides 'decodes to s' or 'invalid'; the real code must select exactly member/element s, or raise a JSONPathError. 1.46 M literal x position cases in quick.",
    "ref": "DESIGN.md section 5, C09",
    "note": "Trusted: string_literal() of the reference parser; any literal reported is re-checked against the ABNF rule string-literal with the generic engine R1.",
    "technique": T_EXH,
}
CHECKS["C13"] = {
    "text": "Totality over 1.43 M strings: `$`.T^<=4 token strings (T^<=5 thorough), every single-edit neighbour and every prefix of a 190-query corpus, 16 nesting constructs at every depth 1..32 (balanced and unbalanced), 20 repeatable constructs at lengths 1..1024 characters, 130 extreme-number queries. compile() runs under a 10 s watchdog with the interpreter's default recursion limit; every query that compiles is applied to 47 JSON kinds as root, sole array element and sole object member (4.1 M evaluations). Any outcome other than a value or a JSONPathError (with working str/repr) is a violation.",
    "ref": "DESIGN.md section 5, C13",
    "note": "Bounded: strings beyond the enumerated families are not covered; the 1024-character / nesting-32 bound is reached by scaling families, not by enumerating all strings of that size.",
    "technique": T_EXH,
}
CHECKS["C19"] = {
    "text": "For every rejected string among 1.43 M token strings / single-edit neighbours and ~200 000 variants of broken corpus queries with LF, CRLF, ' LF ' or LF LF inserted at every position, the raised error must carry a token whose index lies in [0, len(query)] and whose query is the query text, and the printed 'line L, column C' must equal the line and 0-based column recomputed from that index. 325 000 rejected multi-line queries per quick run.",
    "ref": "DESIGN.md section 5, C19",
    "note": "Column convention (0-based) taken from the repository's own position tests; a lone CR is accepted as a line break or not.",
    "technique": T_EXH,
}
CHECKS["C08"] = {
    "text": "Every Unicode scalar value as a one-character member name (BMP + plane boundaries quick, all thorough), every name of length <=3 over 13 special characters and the empty name; every node returned by every depth<=2 query of the 26-segment alphabet on every JSON tree with <=4 (quick) / <=5 (thorough) nodes, and by descendant/filter/reverse-slice queries on special-name documents. Per node: walking node.location reaches the identical object; location keys are normalized; path() equals the reference rendering and is in the normalized-path ABNF; find(path) returns exactly that node. Per nodelist: values()/paths()/items() agree.",
    "ref": "DESIGN.md section 5, C08",
    "note": "Trusted: mc/ref/paths.py (RFC 2.7) and the normalized-path ABNF interpreted by the generic engine.",
    "technique": T_EXH,
}
CHECKS["C10"] = {
    "text": "Built-ins: 71 query shapes over length/count/value on array and object documents whose children cover every JSON kind, compared with the reference evaluator. Conversions: probe functions for all 39 signatures {V,L,N}^n -> {V,L,N} (n<=2) are registered on a real environment and in the reference model; for the full product of argument shapes per parameter type (10 V x 8 N x 8 L) and 4-5 placements the multiset of (function, received arguments) recorded by the real probes must equal the reference's (ValueType: literal / single value / NOTHING; NodesType: node list with the reference nodes; LogicalType: exactly True/False) and the selected nodes must agree.",
    "ref": "DESIGN.md section 5, C10",
    "note": "Trusted: R3 call semantics. ",
    "technique": T_EXH,
}
CHECKS["C11"] = {
    "text": "All I-Regexp pattern strings of size <=2 over 20 atoms and size 3 over 8 atoms (size 4 over 4 atoms in thorough) closed under concatenation, alternation, grouping and 6 quantifiers (7 082 patterns quick) x all subject strings of length <=2 over a 14-character alphabet (LF, CR, U+2028, |, &, ~, -, [, non-BMP) plus length 3 over a 6-character subset (427 subjects; all 2 955 in thorough), for match() and search(), with the pattern as literal and from the document; all character classes over <=3 of 16 class items; 868 patterns built from the 17 single-character escapes (alone, quantified, paired, in and beside classes) x 463 subjects made of the escaped characters; 40 invalid patterns; every non-string kind in either argument, also produced by a nested value(). 5.96 M (function, pattern, subject) states in quick.",
    "ref": "DESIGN.md section 5, C11",
    "note": "Trusted: mc/ref/iregexp.py (own recogniser + set-of-positions matcher), cross-checked against the RFC 9485 ABNF with the generic engine for every generated pattern; Unicode categories from unicodedata.",
    "technique": T_EXH,
}
CHECKS["C12"] = {
    "text": "(A) every Boolean expression tree with <=4 leaves over independent atoms (test or comparison), every &&/|| assignment, every subset of negated nodes, minimal and full parenthesisation (38 000 expressions quick, 168 000 thorough) on an 81-child truth-table document: str() must be a valid query, compile, be idempotent and select the same nodes; trees with <=3 leaves also before / after another selector of the same segment and inside a nested filter. (B) corpus queries, all 432 slice shapes, 1 620 number spellings, names/literals over 30 000 BMP code points (all in thorough) and all <=3-character names over 13 special characters (single- and double-quoted spelling): same oracle plus canonical single-quoted literals.",
    "ref": "DESIGN.md section 5, C12",
    "note": "Semantic equality is decided on a complete truth table (A) or dedicated documents (B), not on all JSON values. Purely associative regroupings ((a&&b)&&c vs a&&(b&&c)) are not observable and not flagged.",
    "technique": T_EXH,
}
CHECKS["C17"] = {
    "text": "Stateless exploration of the real evaluator's complete tree of random choices: the name `random` inside jsonpath_rfc9535.segments/.selectors is rebound to an enumerating chooser (depth-first, prefix replay, one real find() per leaf; sample() outcomes enumerated up to object identity). Inputs: 12 queries x all 9 905 JSON trees with <=5 nodes (98 245 with <=6 in thorough), 4 descendant queries x all array-only container skeletons with <=7 (8) nodes, wide, duplicate-reaching and shared-container documents (also with a filter nested in a filter before a shuffled selector), and the repository's 10 nondeterminism cases; the flag switched on by subclassing, on a plain instance before / after compiling, and after other environments of the same class compiled the same text. Histories: find_one / abandoned iterator / full run on one document, then find() on another with the same compiled query (6 queries x 5 histories, whole choice tree). Validity: every leaf result is in the reference model's permitted set. Exhaustiveness: the union of leaf results equals that set. 3.8 M executions in quick.",
    "ref": "DESIGN.md section 5, C17",
    "note": "Assumes all randomness flows through the module-level name `random` of the two modules (a replayed prefix meeting a different arity is a hard error).",
    "technique": "stateless exploration of the choice tree of the real code (enumerating random source), exact set comparison with reference model",
}
CHECKS["C18"] = {
    "text": "Limits 1..5 x both modes x every container skeleton with <=6 (7) containers in 3 container and 2 leaf flavours; chains at nesting limit-1..limit+2 for limits 1..5, 100, 200, 450, 700 with array/object/alternating links, scalar/empty bottoms and the deep branch alone/first/middle/last; 12 cyclic structures (self-loops, 2-/3-cycles, cycles below a prefix, branching cycles for limits <=4). Deterministic mode: one execution per input; nondeterministic mode: the complete choice tree for limits <=4 (5) (capped at 3 000 / 20 000 executions per input, cap hits are reported) and all leaves within 1 (2) deviations above. nesting <= limit => the reference result; otherwise JSONPathRecursionError within a 5 s watchdog and a 200 000-node budget, never RecursionError. Histories: every sequence of <=3 applications (complete run at the limit / too deep / cyclic / shallow, find_one, iterator abandoned after 1 or 3 items) of ONE compiled query, 4 queries x 3 (6) limits x both modes: every complete run must behave like that of a fresh query; one operation grows ONE document object in place between applications. The interpreter's recursion limit lowered to 260 with configured limits 100 / 150.",
    "ref": "DESIGN.md section 5, C18",
    "note": "Limits above 200 are not explored (the deterministic visitor recurses ~2 Python frames per level; configured limits of several hundred reach the interpreter's own limit - recorded in DESIGN.md as out of the explored range). Branching cycles only for small limits.",
    "technique": "bounded-exhaustive enumeration of shapes x limits; choice-tree exploration of the real code in nondeterministic mode (deviation-bounded for large limits)",
}
CHECKS["C14"] = {
    "text": "Explicit-state exploration of API histories: every sequence of <=2 operations over an alphabet of 63 concrete operations (compile / apply a compiled query / find via an environment / module-level find / register, re-register, remove or re-sign a function / change the integer range / mutate or replace a document between two applications / many rejected compilations / invalid patterns after valid ones / an environment with very large limits) on 5 environments, 15 queries and 6 documents (one built from subclasses of dict, list, str), and every sequence of 3 over a reduced 15-operation alphabet (<=3 full and 4 reduced in thorough), plus one chained history of 2 000 steps. Every history runs on a freshly imported package (sys.modules purge, regex cache purge) and is compared step by step with a model (per-environment registry + R3); every document is snapshotted (deep copy + identity of every container) around each operation; a change of the interpreter's recursion limit is reported together with a query whose outcome it changes. Function f1 has a different implementation per environment so leakage shows as behaviour.",
    "ref": "DESIGN.md section 5, C14",
    "note": "Histories are never merged (hidden state is what is hunted). Bounded by history length and by the operation alphabet.",
    "technique": "explicit-state enumeration of operation histories on the real package (fresh import per history) against a reference model",
}
CHECKS["C15"] = {
    "text": "702 structural queries (depth<=2 over the 26-segment alphabet), 529 filter queries, 60 invalid queries (every error class) and deep-document cases x all JSON trees with <=2 (quick) / <=3 (thorough) nodes, 47 kinds and deep documents x 17 call paths (module-level and environment find / finditer / find_one / compile().find / apply / finditer / find_one, plus find / finditer / compile().finditer through an environment created for the call and not kept). All paths must give the same [(location, value identity)] list, find_one its first element or None, and the same exception class on failure. Invalid queries must be rejected by the call itself (a finditer() that fails only when iterated is reported). An environment reconfigured after a query was compiled on it (recursion limit lowered / raised, function registered again; 53 cases): the old query's entry points and the environment's methods must agree. 18 stack-exhaustion cases (queries of 300 / 3 000 / 6 000 segments, documents nested 300 / 3 000 levels under a raised max_recursion_depth) must complete, or fail with the same exception class, on every path. 2.1 M path executions in quick.",
    "ref": "DESIGN.md section 5, C15",
    "note": "Differential oracle between entry points (agreement with RFC semantics is C01/C02). find_one on an evaluation-time recursion error may legitimately return the first node (lazy).",
    "technique": "bounded-exhaustive differential enumeration over queries x documents x entry points",
}
CHECKS["C16"] = {
    "text": "Iterator part: 10 queries x 7 sharing configurations (+ one configuration with an environment limit far above the interpreter's on a document nested 3 300 levels) (same compiled query / two compilations / two environments; same, different or equal-under-Python (1 vs true) documents; 2-3 live iterators): ALL interleavings of the first 5 (k=2) / 3 (k=3) next() calls of each iterator (7 / 4 in thorough), each schedule replayed on fresh iterators and compared item by item with the solitary run, plus every single close()/drop point for k=2. Thread part: 20 two-thread harnesses (one with an iterator of the shared environment suspended half-way in the main thread) on shared query/environment objects run on real threads under a cooperative scheduler (sys.settrace line events in package code are scheduling points, one baton, cooperative Lock/RLock): all schedules with <=1 preemption (quick, ~29 000 executions) / <=2 (thorough, capped per harness); each thread must observe its sequential result and the shared objects must be intact afterwards. Compile-only part: two threads compile on one shared environment (same text already compiled; thorough also two texts, a fresh environment, a filter text): ALL schedules with <=2 preemptions at line granularity (56 914 in quick), sliced over 16 shards, and at BYTECODE granularity (a scheduling point before every instruction) with <=1 preemption for the first two harnesses in quick; thorough: <=2 preemptions for the first, <=1 for all four.",
    "ref": "DESIGN.md section 5, C16",
    "note": "Thread schedules at source-line granularity under the GIL; interleavings inside one line or inside the C regex engine are not covered. Preemption bound completed is reported per harness.",
    "technique": "stateless exploration of schedules of the real code: all next() interleavings; controlled-scheduler thread exploration with iterative preemption bounding",
}
CHECKS["C20"] = {
    "text": "Full product of 32 option sets (-q/-r, -f/stdin, stdout/-o, --pretty, --debug) x 28 queries (valid structural/filter/comparison/non-ASCII, syntax, type, name, index, overflow, lexer errors, line breaks, padding) x 20 documents (small, non-ASCII, lone surrogates, comparison kinds, nesting 150, invalid JSON at three positions, empty, non-UTF-8, BOM / UTF-16 / UTF-32) plus the invalid-query corpus = 18 268 runs driven in-process through cli.main() with patched argv/stdio; expected output computed from find().values(). 48 cases are replayed through real `python -m jsonpath_rfc9535` subprocesses and must match the in-process observation (exit status, stdout, stderr, output file).",
    "ref": "DESIGN.md section 5, C20",
    "note": "In-process driving is validated against real subprocesses on a fixed subset in every run.",
    "technique": "bounded-exhaustive enumeration of option sets x inputs, harness conformance-checked against the real process",
}
PENDING = {}
