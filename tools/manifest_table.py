"""Source table for MANIFEST.json (tools/gen_manifest.py)."""
T_EXH = "bounded-exhaustive explicit-state enumeration of inputs, real code vs reference model"
CHECKS = {
    "C07": {
        "text": "Every (array length 0..7/0..12) x (start,end,step) / index combination over the boundary alphabet is executed through find() in four syntactic contexts and compared, node by node (location, element identity, order), with the RFC 2.3.4.2.2 pseudo-code. The space is a finite product enumerated completely, so any arithmetic slip with a witness inside the alphabet is found on every run.",
        "ref": "DESIGN.md section 5, C07",
        "note": "Trusted: the literal transcription of the RFC Normalize/Bounds pseudo-code; values outside the boundary alphabet are not explored.",
        "technique": T_EXH,
    },
}
CHECKS["C01"] = {
    "text": "Depth-first explicit-state search over all sequences (depth<=3 on all JSON trees with <=4 nodes and depth<=2 on <=5 nodes in quick; depth<=3/<=5 nodes and depth<=4/<=4 nodes in thorough) of a 26-segment alphabet (child/descendant x name, index, slice, wildcard and multi-selector lists). A state is (document, reference nodelist); every transition applies one segment in the reference evaluator and runs the real compile()+find() on the whole query text; nodelists are compared as [(location, value identity)] in order with duplicates. A second pass runs every alternative spelling (shorthand, double quotes, blanks) of all depth<=2 queries.",
    "ref": "DESIGN.md section 5, C01",
    "note": "Trusted: reference evaluator mc/ref/eval.py (self-tested on the RFC example tables at setup and by tools/selftest.py). Paths whose reference nodelist became empty are not extended.",
    "technique": T_EXH,
}
CHECKS["C06"] = {
    "text": "The full product of ordered comparand pairs over a 47-entry table of JSON kinds (falsy values, equal int/float pairs, -0.0, non-BMP strings, arrays/objects differing only by bool-vs-number leaves) plus 'nothing', six operators and nine ways of producing a comparand (relative/absolute singular queries, index, value(), length(), literals in several spellings on either side) is evaluated through find() and compared with the RFC comparison table. 226 908 (pair, operator, production) states per run, none sampled.",
    "ref": "DESIGN.md section 5, C06",
    "note": "Trusted: comparison table transcription (DESIGN.md appendix D), checked against the RFC's own table rows in the self-test.",
    "technique": T_EXH,
}
CHECKS["C02"] = {
    "text": "All filter expressions with <=2 units over 27 atoms x 4 unit forms (x, !x, (x), !(x)), <=3 units over a 16-unit subset (<=4 over 8 in thorough), joined by &&/|| under every parenthesisation/negation of sub-groups, are generated as text, parsed by the reference parser (which alone decides precedence and grouping) and run through the real find() on array and object documents whose children cover every JSON kind (0, false, \"\", null, [], {} included), below $.k, under a descendant segment, inside a nested filter (checks $ scoping), in multi-selector segments and on scalar roots. 153 036 expressions / 9.9 M (expression, child) evaluations in quick.",
    "ref": "DESIGN.md section 5, C02",
    "note": "Trusted: R2 parser (cross-checked against the ABNF engine R1) and R3 evaluator; match/search atoms use literal patterns only.",
    "technique": T_EXH,
}
CHECKS["C03"] = {
    "text": "Every string the reference recogniser classifies valid among 1.4 M token strings (`$`.T^<=4 over 33 tokens; T^<=5 = 40 M in thorough), all ~200 000 single-edit neighbours of a 190-query corpus and every corpus query with each of 4 blank characters inserted at every position must compile. Lexical rules are covered exhaustively: every Unicode scalar value (BMP + plane boundaries in quick, all 1 112 064 in thorough) as name-first, as name-char, raw inside both quote styles and as \\uXXXX escape; the product of number spellings int x frac x exp; boundary integers in index and slice slots.",
    "ref": "DESIGN.md section 5, C03",
    "note": "Trusted: R2 recogniser + typing, with R1 (generic ABNF engine over the transcribed RFC grammar) re-checking every string that is reported. Grey-zone strings are not required either way.",
    "technique": T_EXH,
}
CHECKS["C04"] = {
    "text": "Every string the reference recogniser classifies as outside the grammar among `$`.T^<=4 (33-token alphabet; T^<=5 in thorough), T^<=2 without `$`, and all single-character deletions/insertions/replacements/transpositions of a 190-query valid corpus (40-character edit alphabet) must make compile() raise a JSONPathError. 1.39 M out-of-grammar strings per quick run, enumerated not sampled.",
    "ref": "DESIGN.md section 5, C04",
    "note": "Trusted: R2 recogniser; any string reported is first re-checked with R1, the generic ABNF engine (disagreement = machinery error, exit 2).",
    "technique": T_EXH,
}
CHECKS["C05"] = {
    "text": "A finite product is enumerated completely: 39 probe functions (every signature {V,L,N}^n -> {V,L,N}, n<=2) + the 5 built-ins + an unknown name, each in 14 syntactic positions (test, under !, inside &&/||, in parentheses, either comparand, argument of a V/L/N parameter, inside nested filters) with 21 argument shapes per parameter; wrong arities; 400 operand pairs x 2 comparison operators; integers at bound-1/bound/bound+1 of three configured ranges in 14 index/slice slots. compile() on an environment holding the probe registry must succeed exactly when the reference typing judgement says so, must raise a JSONPathError otherwise, and must never call a registered function. 186 538 queries per run.",
    "ref": "DESIGN.md section 5, C05",
    "note": "Trusted: mc/ref/typing.py (RFC 2.4.3) checked against the RFC well-typedness table in the self-test; R1 re-checks grammar membership of every reported query. One open known finding (F-C05-1).",
    "technique": T_EXH,
}
PENDING = {}
