"""Source table for MANIFEST.json (tools/gen_manifest.py)."""
T_EXH = "bounded-exhaustive explicit-state enumeration of inputs, real code vs reference model"
CHECKS = {
    "C07": {
        "text": "Every (array length 0..7/0..12) x (start,end,step) / index combination over the boundary alphabet is executed through find() in four syntactic contexts and compared, node by node (location, element identity, order), with the RFC 2.3.4.2.2 pseudo-code. The space is a finite product enumerated completely, so any arithmetic slip with a witness inside the alphabet is found on every run.",
        "ref": "DESIGN.md section 5, C07",
        "note": "Trusted: the literal transcription of the RFC Normalize/Bounds pseudo-code; values outside the boundary alphabet are not explored.",
        "technique": T_EXH,
    },
}
PENDING = {}
